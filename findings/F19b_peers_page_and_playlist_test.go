package http

// F19b (failed obligations http.peers:pre:fmt.Fprintf.escaped, http.m3uentry:...):
// the peers page prints tracker URLs, web-seed URLs (both from the torrent
// file) unescaped, and a file name containing a line break adds lines to the
// generated playlist. Run with CGO_ENABLED=0 (DHT stubs).

import (
	"context"
	"io"
	"log"
	"net/http/httptest"
	"strings"
	"testing"

	"github.com/jech/storrent/path"
	"github.com/jech/storrent/tor"
	"github.com/jech/storrent/tracker"
	"github.com/jech/storrent/webseed"
)

func TestF19bPeersPage(t *testing.T) {
	tk := tracker.New("http://tracker.example/<script>alert(1)</script>")
	ws := webseed.New("http://seed.example/<script>alert(2)</script>", true)
	if tk == nil || ws == nil {
		t.Skip("URLs rejected")
	}
	h := make([]byte, 20)
	h[0] = 0x19
	tr, err := tor.New("", h, "demo", nil, 0, [][]tracker.Tracker{{tk}}, []webseed.Webseed{ws})
	if err != nil {
		t.Fatal(err)
	}
	tr.Log = log.New(io.Discard, "", 0)
	ctx, cancel := context.WithCancel(context.Background())
	defer cancel()
	if _, err := tor.AddTorrent(ctx, tr); err != nil {
		t.Fatal(err)
	}
	w := httptest.NewRecorder()
	r := httptest.NewRequest("GET", "http://localhost:8088/?q=peers", nil)
	peers(w, r, tr)
	body := w.Body.String()
	if strings.Contains(body, "<script>alert(1)") {
		t.Errorf("tracker URL appears unescaped in the peers page")
	}
	if strings.Contains(body, "<script>alert(2)") {
		t.Errorf("web-seed URL appears unescaped in the peers page")
	}
}

func TestF19bPlaylistLines(t *testing.T) {
	w := httptest.NewRecorder()
	m3uentry(w, "localhost:8088", make([]byte, 20), path.Path{"a\nhttp://evil.example/x"})
	if n := strings.Count(w.Body.String(), "\n"); n != 2 {
		t.Errorf("one playlist entry produced %d lines: %q", n, w.Body.String())
	}
}
