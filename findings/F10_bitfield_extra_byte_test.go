package peer

// F10 (found by the failed obligation peer.Run:pre:peer.write.bitfield): the
// initial Bitfield is built with bitmap.Extend(num), which makes bit number
// `num` addressable: for a piece count divisible by 8 the message carries one
// byte too many (3 bytes for 16 pieces; BEP 3 says peers drop the connection on
// a bitfield of the wrong length).

import (
	"bufio"
	"net"
	"net/netip"
	"testing"
	"time"

	"github.com/jech/storrent/bitmap"
	"github.com/jech/storrent/protocol"
	"github.com/jech/storrent/tor/piece"
)

func TestF10BitfieldLength(t *testing.T) {
	const npieces = 16
	var ps piece.Pieces
	ps.MetadataComplete(32768, npieces*32768)
	defer ps.Del()
	a, b := net.Pipe()
	defer a.Close()
	defer b.Close()
	p := New("", a, netip.AddrPort{}, false, protocol.HandshakeResult{})
	p.Pieces = &ps
	bm := bitmap.New(npieces)
	for i := 0; i < npieces; i += 2 { // have half of the pieces: a Bitfield is sent
		bm.Set(i)
	}
	torEvent := make(chan TorEvent, 64)
	torDone := make(chan struct{})
	go Run(p, torEvent, torDone, nil, bm, nil)
	defer close(torDone)
	b.SetReadDeadline(time.Now().Add(5 * time.Second))
	r := bufio.NewReader(b)
	for {
		m, err := protocol.Read(r, nil)
		if err != nil {
			t.Fatalf("no bitfield seen: %v", err)
		}
		if bf, ok := m.(protocol.Bitfield); ok {
			if len(bf.Bitfield) != (npieces+7)/8 {
				t.Errorf("bitfield for %d pieces has %d bytes, want %d", npieces, len(bf.Bitfield), (npieces+7)/8)
			}
			return
		}
	}
}
