package tor

// F20 (failed obligations tor.Expire:div#2, div#3): the fair-share computation
// of tor.Expire divides the low mark by the number of torrents, and the rest by
// the number of "big" torrents; both can be zero while the allocation counter
// is at or above the high mark (no torrents listed; or a memory mark of 0; or
// every listed torrent below its fair share while memory is still held by a
// torrent that is being deleted). Expire runs periodically from main: the
// whole process dies with "integer divide by zero".

import (
	"testing"

	"github.com/jech/storrent/config"
)

func TestF20ExpireNoTorrents(t *testing.T) {
	old := config.MemoryMark
	config.MemoryMark = 0 // e.g. -mem 0; alloc.Bytes() == 0 is then already "at the high mark"
	defer func() { config.MemoryMark = old }()
	defer func() {
		if r := recover(); r != nil {
			t.Fatalf("tor.Expire panicked: %v", r)
		}
	}()
	Expire()
}
