package protocol

// F31 (found when the assumed contract of io.Copy was made truthful: it returns
// nil both when the limit is exhausted and when the stream ends first; failed
// obligations protocol.Read:post:framed-eof@ret13/@ret16): an extended handshake
// (or PEX message) whose frame is truncated after a complete bencoded dictionary
// is ACCEPTED: Read returns a message and no error although it consumed fewer
// bytes than the 4+L it announced.

import (
	"bufio"
	"bytes"
	"testing"
)

func TestF31TruncatedExtendedFrame(t *testing.T) {
	for _, sub := range []byte{0, 1} {
		// L = 20: id 20, sub-id, then 18 payload bytes announced; only "de" present
		in := []byte{0, 0, 0, 20, 20, sub, 'd', 'e'}
		r := bufio.NewReader(bytes.NewReader(in))
		m, err := Read(r, nil)
		if err == nil {
			t.Errorf("sub-id %d: truncated frame (8 of 24 bytes) accepted: %#v", sub, m)
		}
	}
}
