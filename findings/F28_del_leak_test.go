package piece

import (
	"testing"
	"time"

	"github.com/jech/storrent/hash"
)

// Del() sets ps.deleted only after the loop; while it waits (lock released)
// for a busy piece, AddData on an already-deleted piece allocates again.
func TestDelLeak(t *testing.T) {
	ps := &Pieces{}
	ps.MetadataComplete(1<<22, 2<<22) // two 4 MiB pieces
	data := make([]byte, 16384)
	for off := uint32(0); off < 1<<22; off += 16384 {
		ps.AddData(1, off, data, 0)
	}
	bad := hash.Hash(make([]byte, 20))
	go ps.Finalise(1, bad)
	for !ps.pieces[1].Busy() {
		time.Sleep(10 * time.Microsecond)
	}
	deldone := make(chan struct{})
	go func() { ps.Del(); close(deldone) }()
	// a block for piece 0 arrives while Del waits for piece 1
	for i := 0; i < 200; i++ {
		ps.AddData(0, 0, data, 0)
		select {
		case <-deldone:
			i = 1000
		default:
			time.Sleep(20 * time.Microsecond)
		}
	}
	<-deldone
	if ps.pieces[0].data != nil || ps.count != 0 {
		t.Errorf("after Del: piece 0 holds %d bytes, count = %d", len(ps.pieces[0].data), ps.count)
	}
}
