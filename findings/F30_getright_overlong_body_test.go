package tor

// F30 (found by the failed obligation webseed.(*GetRight).Get:assertcall:limited):
// GetRight.Get caps the body only when the server ANNOUNCES more than was asked
// (l > length). A 206 answer whose Content-Range matches the request but whose
// chunked body is longer is copied in full into the writer; in a range spanning
// two files the surplus of file a lands in the blocks of file b.

import (
	"context"
	"crypto/sha1"
	"fmt"
	"io"
	"log"
	"net/http"
	"net/http/httptest"
	"testing"

	"github.com/jech/storrent/hash"
	"github.com/jech/storrent/path"
	"github.com/jech/storrent/peer"
	"github.com/jech/storrent/webseed"
)

func TestF30OverlongBody(t *testing.T) {
	const psize = 32768
	const alen, blen = 16384, 16384
	content := make([]byte, psize)
	x := uint32(7)
	for i := range content {
		x = x*1664525 + 1013904223
		content[i] = byte(x >> 24)
	}
	a := content[:alen]
	mux := http.NewServeMux()
	mux.HandleFunc("/demo/a", func(w http.ResponseWriter, r *http.Request) {
		w.Header().Set("Content-Range", fmt.Sprintf("bytes 0-%d/%d", alen-1, alen))
		w.WriteHeader(http.StatusPartialContent)
		w.Write(a)
		w.(http.Flusher).Flush() // chunked: no Content-Length
		w.Write(make([]byte, blen)) // 16 KiB more than announced
	})
	bAsked := false
	mux.HandleFunc("/demo/b", func(w http.ResponseWriter, r *http.Request) {
		bAsked = true
		http.Error(w, "gone", http.StatusNotFound)
	})
	srv := httptest.NewServer(mux)
	defer srv.Close()

	sum := sha1.Sum(content)
	h := hash.Hash(sum[:])
	tr := &Torrent{
		Name: "demo", Event: make(chan peer.TorEvent, 512), Done: make(chan struct{}),
		Log: log.New(io.Discard, "", 0), infoComplete: 1, PieceHashes: []hash.Hash{h},
		Files: []Torfile{
			{Path: path.Path{"a"}, Offset: 0, Length: alen},
			{Path: path.Path{"b"}, Offset: alen, Length: blen},
		},
	}
	tr.Pieces.MetadataComplete(psize, psize)
	defer tr.Pieces.Del()
	ws := webseed.New(srv.URL+"/", true).(*webseed.GetRight)
	webseedGR(context.Background(), ws, tr, 0, 0, psize)
	_, bm := tr.Pieces.PieceBitmap(0)
	if bm.Get(1) {
		t.Errorf("block 1 (file b) was stored although file b was never delivered (b asked: %v): bytes of file a's over-long body landed there", bAsked)
	}
}
