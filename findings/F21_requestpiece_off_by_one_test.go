package tor

// F21 (failed obligation tor.requestPiece:pre:tor/piece.(*Pieces).Complete.pre):
// the range guard of requestPiece is `index > len(PieceHashes)`, so index ==
// number of pieces gets through and indexes the piece table out of range.

import (
	"io"
	"log"
	"testing"

	"github.com/jech/storrent/hash"
	"github.com/jech/storrent/peer"
)

func TestF21RequestPieceRange(t *testing.T) {
	tr := &Torrent{
		Name: "demo", Event: make(chan peer.TorEvent, 64), Done: make(chan struct{}),
		Log: log.New(io.Discard, "", 0), infoComplete: 1,
		PieceHashes: make([]hash.Hash, 1),
	}
	tr.requested.pieces = make(map[uint32]*RequestedPiece)
	tr.Pieces.MetadataComplete(32768, 32768)
	defer tr.Pieces.Del()
	defer func() {
		if r := recover(); r != nil {
			t.Fatalf("requestPiece(1) on a one-piece torrent panicked: %v", r)
		}
	}()
	requestPiece(tr, 1, 1, true, true)
}
