package peer

// F33 (C17): peer.Run registers the deferred function that closes peer.Done and
// sends TorPeerGoaway only AFTER the initial announcements; when one of those
// writes fails (the remote end closes right after the handshake, so the writer
// goroutine has already exited), Run returns through an early "return err":
// Done is never closed and the torrent never hears TorPeerGoaway. The torrent
// keeps the peer for ever, and every writePeer(p, e) of its event loop
// (select { p.Event <- e; <-p.Done }) blocks for good once p.Event's 256 slots
// are full: the torrent wedges and with it every API call.
//
// Run with:  go test -overlay <ov.json> -vet=off -count=1 -run TestF33 ./peer/

import (
	"net"
	"net/netip"
	"testing"
	"time"

	"github.com/jech/storrent/protocol"
)

func TestF33RunEarlyReturnClosesDone(t *testing.T) {
	for attempt := 0; attempt < 200; attempt++ {
		a, b := net.Pipe()
		b.Close() // the remote end goes away right after the handshake
		res := protocol.HandshakeResult{Dht: true, Extended: true, Fast: true}
		p := New("", a, netip.MustParseAddrPort("192.0.2.1:6881"), false, res)
		if p == nil {
			t.Fatal("New")
		}
		torEvent := make(chan TorEvent, 64)
		torDone := make(chan struct{})
		ret := make(chan error, 1)
		go func() { ret <- Run(p, torEvent, torDone, nil, nil, nil) }()
		var err error
		select {
		case err = <-ret:
		case <-time.After(5 * time.Second):
			t.Fatal("Run did not return")
		}
		select {
		case <-p.Done:
		default:
			t.Fatalf("attempt %d: Run returned (%v) but peer.Done is still open: the torrent is never told (no TorPeerGoaway), writePeer blocks once p.Event is full", attempt, err)
		}
		goaway := false
		for len(torEvent) > 0 {
			if _, ok := (<-torEvent).(TorPeerGoaway); ok {
				goaway = true
			}
		}
		if !goaway {
			t.Fatalf("attempt %d: Run returned (%v) without sending TorPeerGoaway", attempt, err)
		}
		close(torDone)
	}
}
