package crypto

// F7 (failed obligation crypto.readMore:post:exact): crypto.readMore ignores
// how many bytes io.ReadAtLeast delivered and returns the whole m-byte buffer:
// bytes that were never received (zeros) are handed to the handshake parser, so
// ServerHandshake's result depends on how TCP happened to split the client's
// bytes. (protocol.readMore, the same function in the other package, trims.)

import (
	"net"
	"testing"
)

func TestF7ReadMore(t *testing.T) {
	a, b := net.Pipe()
	defer a.Close()
	defer b.Close()
	go b.Write(make([]byte, 20)) // exactly the 20 bytes asked for, nothing more
	buf, err := readMore(a, nil, 20, 1024)
	if err != nil {
		t.Fatal(err)
	}
	if len(buf) != 20 {
		t.Errorf("20 bytes were received, readMore returned %d", len(buf))
	}
}
