package tor

// F29 (found by the failed obligation tor.(*writer).ReadFrom:inv-init:loop1.small):
// a Write that the piece store does not consume (piece already complete or
// being hashed) leaves all its bytes buffered; if that is more than 32 KiB,
// the next ReadFrom evaluates w.buf[len(w.buf):32768] and panics with
// "slice bounds out of range". Run with:
//   go test -overlay <ov.json> -vet=off -run TestF29 ./tor   (see /verif/findings/README)

import (
	"bytes"
	"crypto/sha1"
	"testing"

	"github.com/jech/storrent/peer"
)

func TestF29ReadFromAfterWrite(t *testing.T) {
	tr := &Torrent{}
	tr.Event = make(chan peer.TorEvent, 16)
	tr.Done = make(chan struct{})
	const ps = 65536
	tr.Pieces.MetadataComplete(ps, 2*ps)
	zero := make([]byte, ps)
	n, complete, err := tr.Pieces.AddData(0, 0, zero, 1)
	if n != ps || !complete || err != nil {
		t.Fatalf("AddData: %v %v %v", n, complete, err)
	}
	h := sha1.Sum(zero)
	done, _, err := tr.Pieces.Finalise(0, h[:])
	if !done || err != nil {
		t.Fatalf("Finalise: %v %v", done, err)
	}
	// piece 0 is complete: the store consumes nothing from now on
	w := NewWriter(tr, 0, 0, ps)
	k, err := w.Write(make([]byte, 40000))
	if k != 40000 || err != nil {
		t.Fatalf("Write: %v %v", k, err)
	}
	defer func() {
		if r := recover(); r != nil {
			t.Fatalf("ReadFrom panicked: %v", r)
		}
	}()
	w.ReadFrom(bytes.NewReader(make([]byte, 100)))
}
