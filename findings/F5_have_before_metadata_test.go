package peer

// F5 (known finding; failed obligation peer.handleMessage:post:setbound): before
// the metadata is known the index of a Have message is not range-checked, and
// bitmap.Set extends the peer's bitmap up to that index: ONE 9-byte message with
// index 2^32-1 makes storrent allocate a 512 MiB bitmap for that peer (and the
// torrent side then grows its availability table to 8 GiB when it processes the
// TorPeerHave event).

import (
	"net"
	"net/netip"
	"runtime"
	"testing"

	"github.com/jech/storrent/protocol"
	"github.com/jech/storrent/tor/piece"
)

func TestF5HaveBeforeMetadata(t *testing.T) {
	var ps piece.Pieces // metadata not known: no geometry
	a, b := net.Pipe()
	defer a.Close()
	defer b.Close()
	p := New("", a, netip.AddrPort{}, false, protocol.HandshakeResult{})
	p.Pieces = &ps
	var m0, m1 runtime.MemStats
	runtime.ReadMemStats(&m0)
	if err := handleMessage(p, protocol.Have{Index: 1 << 31}); err != nil {
		t.Fatalf("handleMessage: %v", err)
	}
	runtime.ReadMemStats(&m1)
	if d := m1.TotalAlloc - m0.TotalAlloc; d > 16<<20 {
		t.Errorf("one Have message made storrent allocate %d MiB", d>>20)
	}
}
