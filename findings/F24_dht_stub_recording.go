// +build !cgo

// Recording replacement for /repo/dht/dht_stubs.go (go test -overlay with
// CGO_ENABLED=0): the same four functions as the stub, but Ping and Announce
// record their arguments, so that a demonstration can observe that the REAL
// peer/tor code calls them.
package dht

import (
	"net/netip"
)

var Pinged []netip.AddrPort

type AnnounceCall struct {
	IPv6 bool
	Port uint16
}

var Announced []AnnounceCall

func Available() bool {
	return false
}

func Ping(a netip.AddrPort) error {
	Pinged = append(Pinged, a)
	return nil
}

func Announce(id []byte, ipv6 bool, port uint16) error {
	Announced = append(Announced, AnnounceCall{ipv6, port})
	return nil
}

func Count() (good4 int, good6 int,
	dubious4 int, dubious6 int,
	incoming4 int, incoming6 int) {
	return
}
