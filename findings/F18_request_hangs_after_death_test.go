package tor

// F18 (failed obligation tor.(*Torrent).Request:blocking:recv): once its
// command is in the event queue, Torrent.Request waits for the reply with a
// bare `<-ch`. If the event loop exits with the command still queued (the
// queue holds 512 events), nobody ever answers: the caller -- a Reader.Read,
// hence an HTTP or FUSE request -- hangs for ever although Done is closed.

import (
	"io"
	"log"
	"testing"
	"time"

	"github.com/jech/storrent/hash"
	"github.com/jech/storrent/peer"
)

func TestF18RequestAfterDeath(t *testing.T) {
	tr := &Torrent{
		Name: "demo", Event: make(chan peer.TorEvent, 512), Done: make(chan struct{}),
		Log: log.New(io.Discard, "", 0), infoComplete: 1,
		PieceHashes: make([]hash.Hash, 1),
	}
	tr.Pieces.MetadataComplete(32768, 32768)
	defer tr.Pieces.Del()
	returned := make(chan struct{})
	go func() {
		tr.Request(0, 1, true, true) // queued: the loop is not running any more
		close(returned)
	}()
	time.Sleep(100 * time.Millisecond)
	close(tr.Done) // the torrent is dead
	select {
	case <-returned:
	case <-time.After(2 * time.Second):
		t.Errorf("Torrent.Request still blocked 2 s after Done was closed")
	}
}
