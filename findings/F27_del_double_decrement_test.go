package piece

import (
	"testing"
	"time"

	"github.com/jech/storrent/hash"
)

// Deleting a store while a piece with a bad hash is being finalised:
// Finalise discards the piece (count--), then the forced del that was
// waiting for it decrements count again -> "Negative pieces count".
func TestDelDuringFailedFinalise(t *testing.T) {
	ps := &Pieces{}
	ps.MetadataComplete(1<<22, 1<<22) // one 4 MiB piece: hashing takes a few ms
	data := make([]byte, 16384)
	for off := uint32(0); off < 1<<22; off += 16384 {
		ps.AddData(0, off, data, 0)
	}
	bad := hash.Hash(make([]byte, 20))
	done := make(chan struct{})
	go func() {
		ps.Finalise(0, bad)
		close(done)
	}()
	for !ps.pieces[0].Busy() {
		time.Sleep(10 * time.Microsecond)
	}
	ps.Del()
	<-done
	if ps.count != 0 {
		t.Errorf("count = %d after Del", ps.count)
	}
}
