package tor

// F8 (failed obligation tor.handleEvent:post:dropall / post:dataall): the
// TorData and TorDrop handlers release Length/16384 blocks, rounding DOWN: for
// the torrent's final, short block nothing is released, so it stays "in flight"
// for ever and is never requested again.

import (
	"context"
	"io"
	"log"
	"testing"

	"github.com/jech/storrent/hash"
	"github.com/jech/storrent/peer"
)

func TestF8LastBlockReleased(t *testing.T) {
	const length = 20000 // one full block and a final block of 3616 bytes
	tr := &Torrent{
		Name: "demo", Event: make(chan peer.TorEvent, 64), Done: make(chan struct{}),
		Log: log.New(io.Discard, "", 0), infoComplete: 1,
		PieceHashes: make([]hash.Hash, 1),
		inFlight:    make([]uint8, 2),
	}
	tr.requested.pieces = make(map[uint32]*RequestedPiece)
	tr.Pieces.MetadataComplete(32768, length)
	defer tr.Pieces.Del()
	for _, e := range []peer.TorEvent{
		peer.TorDrop{Index: 0, Begin: 16384, Length: length - 16384},
		peer.TorData{Index: 0, Begin: 16384, Length: length - 16384},
	} {
		tr.inFlight[1] = 1
		if err := handleEvent(context.Background(), tr, e); err != nil {
			t.Fatal(err)
		}
		if tr.inFlight[1] != 0 {
			t.Errorf("%T for the final block (%d bytes): in-flight count still %d", e, length-16384, tr.inFlight[1])
		}
	}
}
