package peer

// F24 (failed obligation peer.handleMessage:assert:noping@call:dht.Ping): a
// Port message from a peer of a PROXIED torrent makes storrent send a DHT ping
// straight from its own UDP socket to the peer's address: the peer learns the
// real IP address and DHT port that the proxy was meant to hide.
// Run with CGO_ENABLED=0 and the recording dht stub overlaid (see known_findings.json).

import (
	"net"
	"net/netip"
	"testing"

	"github.com/jech/storrent/dht"
	"github.com/jech/storrent/protocol"
)

func TestF24PortMessageProxied(t *testing.T) {
	a, b := net.Pipe()
	defer a.Close()
	defer b.Close()
	addr := netip.MustParseAddrPort("192.0.2.7:6881")
	p := New("socks5://127.0.0.1:9050", a, addr, false, protocol.HandshakeResult{Dht: true})
	dht.Pinged = nil
	if err := handleMessage(p, protocol.Port{Port: 6881}); err != nil {
		t.Fatalf("handleMessage: %v", err)
	}
	if len(dht.Pinged) != 0 {
		t.Errorf("proxied torrent: DHT ping sent directly to %v", dht.Pinged)
	}
}
