package http

// F19 (failed obligation http.torrentEntry:pre:fmt.Fprintf.escaped): the
// torrent's name -- chosen by whoever made the torrent or answered the magnet
// metadata request -- is written into the torrent list page unescaped.

import (
	"context"
	"io"
	"log"
	"net/http/httptest"
	"strings"
	"testing"

	"github.com/jech/storrent/tor"
)

func TestF19TorrentNameEscaped(t *testing.T) {
	tr, err := tor.New("", make([]byte, 20), "<script>alert(1)</script>", nil, 0, nil, nil)
	if err != nil {
		t.Fatal(err)
	}
	tr.Log = log.New(io.Discard, "", 0)
	tr.Done = make(chan struct{})
	close(tr.Done) // no event loop: queries answer "torrent is dead"
	w := httptest.NewRecorder()
	torrentEntry(context.Background(), w, tr, nil)
	if strings.Contains(w.Body.String(), "<script>") {
		t.Errorf("torrent name appears unescaped in the page: %q", w.Body.String()[:120])
	}
}
