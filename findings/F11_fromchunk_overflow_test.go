package peer

// F11 (failed obligation peer.fromChunk:post:begin): begin is computed as
// (chunk*16384) % piecesize in 32-bit arithmetic; the product wraps for block
// numbers >= 2^18 (offsets beyond 4 GiB), which is harmless only when the piece
// size divides 2^32. With 48 KiB pieces block 300000 (= block 0 of piece
// 100000) is turned into begin 32768: requests and cancels name the wrong block.

import (
	"testing"

	"github.com/jech/storrent/tor/piece"
)

func TestF11FromChunk(t *testing.T) {
	var ps piece.Pieces
	ps.MetadataComplete(49152, 49152*200000) // 48 KiB pieces, 9.8 GB
	defer ps.Del()
	p := &Peer{Pieces: &ps}
	for _, chunk := range []uint32{0, 4, 262143, 262144, 300000, 599999} {
		index, begin := fromChunk(p, chunk)
		wi, wb := chunk/3, (chunk%3)*16384
		if index != wi || begin != wb {
			t.Errorf("fromChunk(%d) = (%d, %d), want (%d, %d)", chunk, index, begin, wi, wb)
		}
		if c := toChunk(p, wi, wb); c != chunk {
			t.Errorf("toChunk(%d, %d) = %d, want %d", wi, wb, c, chunk)
		}
	}
}
