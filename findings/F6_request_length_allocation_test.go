package peer

// F6 (failed obligation peer.scheduleUpload:pre:protocol.GetBuffer.pre): the
// length of an incoming Request is stored unchecked and later handed to
// protocol.GetBuffer, i.e. make([]byte, r.Length): ONE 17-byte Request message
// with length 2^30 makes storrent allocate (and zero) a gigabyte before it
// notices that it cannot serve it.

import (
	"net"
	"net/netip"
	"runtime"
	"testing"

	"github.com/jech/storrent/protocol"
	"github.com/jech/storrent/tor/piece"
)

func TestF6RequestLengthAllocation(t *testing.T) {
	var ps piece.Pieces
	ps.MetadataComplete(32768, 4*32768)
	defer ps.Del()
	a, b := net.Pipe()
	defer a.Close()
	defer b.Close()
	p := New("", a, netip.AddrPort{}, false, protocol.HandshakeResult{Fast: true})
	p.Pieces = &ps
	p.Info = []byte("x")
	p.writer = make(chan protocol.Message, 64)
	p.writerDone = make(chan struct{})
	p.interested = 1
	p.amUnchoking = 1
	var m0, m1 runtime.MemStats
	runtime.ReadMemStats(&m0)
	if err := handleMessage(p, protocol.Request{Index: 0, Begin: 0, Length: 1 << 30}); err != nil {
		t.Fatalf("handleMessage: %v", err)
	}
	if err := scheduleUpload(p, true); err != nil {
		t.Fatalf("scheduleUpload: %v", err)
	}
	runtime.ReadMemStats(&m1)
	if d := m1.TotalAlloc - m0.TotalAlloc; d > 64<<20 {
		t.Errorf("one Request message made storrent allocate %d MiB", d>>20)
	}
}
