package tor

// F32 (found by the failed obligation tor.(*Reader).request:post:released@ret2):
// Reader.request(-1, -1) -- used by Close, by end-of-file and by every error
// path to withdraw the reader's piece requests -- computes uint32(-1/piecesize),
// which is 0 (Go division truncates toward zero). If the reader's current
// request window starts at piece 0 (requestedIndex == 0) the "already requested"
// shortcut fires and NOTHING is withdrawn: the priorities of a closed reader
// stay registered for ever.

import (
	"context"
	"io"
	"log"
	"testing"
	"time"

	"github.com/jech/storrent/hash"
	"github.com/jech/storrent/peer"
)

func f32Withdrawals(t *testing.T, offset int64) (requests, withdrawals int) {
	const ps = 32768
	tr := &Torrent{
		Name: "demo", Event: make(chan peer.TorEvent, 64), Done: make(chan struct{}),
		Log: log.New(io.Discard, "", 0), infoComplete: 1,
		PieceHashes: make([]hash.Hash, 4),
	}
	tr.Pieces.MetadataComplete(ps, 4*ps)
	defer tr.Pieces.Del()
	stop := make(chan struct{})
	finished := make(chan struct{})
	go func() { // stand-in for the torrent's event loop
		defer close(finished)
		for {
			select {
			case e := <-tr.Event:
				if q, ok := e.(peer.TorRequest); ok {
					if q.Request {
						requests++
					} else {
						withdrawals++
					}
					if q.Ch != nil {
						done := make(chan struct{})
						close(done)
						q.Ch <- done
					}
				}
			case <-stop:
				return
			}
		}
	}()
	r := tr.NewReader(context.Background(), offset, 4*ps-offset)
	r.Read(make([]byte, 10)) // registers the reader's requests
	r.Close()
	time.Sleep(50 * time.Millisecond)
	close(stop)
	<-finished
	return
}

func TestF32CloseWithdrawsRequests(t *testing.T) {
	rq, wd := f32Withdrawals(t, 32768) // window starts in piece 1
	if rq == 0 || wd != rq {
		t.Fatalf("control (piece 1): %d requests, %d withdrawals", rq, wd)
	}
	rq, wd = f32Withdrawals(t, 0) // window starts in piece 0
	if wd != rq {
		t.Errorf("reader over piece 0: %d pieces requested, %d withdrawn by Close", rq, wd)
	}
}
