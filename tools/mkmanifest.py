#!/usr/bin/env python3
"""Regenerates /verif/MANIFEST.json from the table below (kept here so that the
manifest stays consistent while checks are added)."""
import json, subprocess

ENV = "GOFLAGS=-mod=mod GOPROXY=off GOSUMDB=off GOTOOLCHAIN=local"
props = [json.loads(l)["id"] for l in open("/verif/properties.jsonl")]

# id -> (level text, level note, design ref)
claimed = {}
exec(open("/verif/tools/claims.py").read())

hooks_commits = subprocess.run(["git", "-C", "/repo", "log", "--format=%h %s"], capture_output=True, text=True).stdout.splitlines()
src = [l.split()[0] for l in hooks_commits if l.split(" ", 1)[1].startswith("verif:")]

m = {
 "version": 1,
 "setup_cmd": f"cd /verif/govc && {ENV} go build -o /verif/bin/govc ./cmd/govc",
 "hooks": {
  "guard": "verif",
  "enable": "-tags verif: comment-only contract files <pkg>/zz_contracts_verif.go (//go:build verif); they contain no code, so the verified SSA is the SSA of the production build",
  "baseline_off_cmd": f"cd /repo && {ENV} go test -vet=off -count=1 ./...",
  "source_commits": src,
  "add_only": True,
 },
 "engines": [{"name": "govc", "path": "/verif/govc", "serves_properties": sorted(claimed), "kind_free_text": "contract-based deductive verifier for Go written for this task: contracts as //@ comments in /repo, verification conditions generated from go/ssa (NaiveForm) of the current working tree by forward symbolic execution with state merging, integers exact (Int + wrap, uint8 as BV8), discharged by z3 4.8.12 / z3 5.1.0 / cvc5 1.0 raced per obligation; counterexamples replayed on the real code with go test -overlay"}],
 "checks": [],
 "notes": "See /verif/DESIGN.md. Exit 0 = every obligation discharged (or matched to /verif/known_findings.json), 1 = VIOLATION, 2 = environment broken.",
 "not_applicable": [],
}
for p in props:
    if p in claimed:
        text, note, ref = claimed[p]
        m["checks"].append({
            "property_id": p,
            "quick_cmd": f"/verif/bin/govc check {p} --tier quick",
            "thorough_cmd": f"/verif/bin/govc check {p} --tier thorough",
            "evidence_file": f"/verif/evidence/{p}.json",
            "replay_cmd_template": "/verif/bin/govc replay {path}",
            "engine": "govc",
            "level_claimed": {"category": "proof", "text": text, "design_ref": ref},
            "level_note": note,
            "technique": "contract-based deductive verification: per-function pre/postconditions, loop and frame invariants on the real code; VCs from go/ssa discharged by SMT (z3/cvc5)",
        })
    else:
        m["not_applicable"].append({"property_id": p, "reason": not_claimed.get(p, "check not built yet (see DESIGN.md section 5 for the plan)")})
json.dump(m, open("/verif/MANIFEST.json", "w"), indent=1)
print("claimed:", sorted(claimed))
