claimed = {
 "C04": (
  "For all byte streams (symbolic stream, every read may fail at any point): protocol.Read returns a message xor an error, on success consumes exactly 4+L bytes, never more than 4+L even on failure, refuses L > 1 MiB, never panics (bounds, nil, make, type assertions), and allocates at most 32*L+64 KiB outside the bencode dependency; proved per return site and per allocation site of the real SSA, with readUint16/32, GetBuffer/PutBuffer and pex.ParseCompact under contract.",
  "Assumed: contracts of bufio/io/binary/bytes/netip/sync.Pool and of zeebo/bencode (Decode fills an arbitrary value, consumes at most its limit; on success byte strings are no longer than the input consumed). Allocation inside bencode is NOT bounded (known finding F3, three call sites). Logging calls are treated as no-ops.",
  "DESIGN.md 5/C04"),
}
not_claimed = {}
