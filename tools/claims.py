claimed = {
 "C04": (
  "For all byte streams (symbolic stream, every read may fail at any point): protocol.Read returns a message xor an error, on success consumes exactly 4+L bytes, never more than 4+L even on failure, refuses L > 1 MiB, never panics (bounds, nil, make, type assertions), and allocates at most 32*L+64 KiB outside the bencode dependency; proved per return site and per allocation site of the real SSA, with readUint16/32, GetBuffer/PutBuffer and pex.ParseCompact under contract.",
  "Assumed: contracts of bufio/io/binary/bytes/netip/sync.Pool and of zeebo/bencode (Decode fills an arbitrary value, consumes at most its limit; on success byte strings are no longer than the input consumed). Allocation inside bencode is NOT bounded (known finding F3, three call sites). Logging calls are treated as no-ops.",
  "DESIGN.md 5/C04"),
 "C12": (
  "For all (index, size, payload) and all states of the metadata exchange: tor.gotMetadata never panics, writes only inside the metadata buffer and only the block named (a block already present is never overwritten by a duplicate), reports completion only when SHA-1(info) equals the torrent's info-hash and MetadataComplete accepted the dictionary (then the geometry invariant Geom holds and infoComplete == 1), and otherwise either leaves the exchange consistent or resets it completely; infoComplete changes nowhere else in these functions; resizeMetadata/metadataVote keep the request table in step with the expected size (invariant MetaOK); hash.Equal is proved equal to byte-wise equality.",
  "Assumed: SHA-1 is an uninterpreted function of the bytes hashed (crypto/sha1.Sum), zeebo/bencode.DecodeBytes yields an arbitrary BInfo. Not decided: the liveness clause (the exchange completes once honest blocks arrive) beyond the two sequential obligations above; requestMetadata/metadataGuess/metadataPeers are not under contract.",
  "DESIGN.md 5/C12"),
 "C13": (
  "For an ARBITRARY decoded info dictionary (every value of BInfo): (*Torrent).MetadataComplete never panics and, when it returns nil, the torrent's geometry is self-consistent -- piece length a positive multiple of 16 KiB, length >= 0, number of pieces = ceil(length/piece length) = number of 20-byte piece hashes, one in-flight slot per 16 KiB block, files contiguous from offset 0 with non-negative lengths summing to the length, a non-empty name; on error infoComplete and the piece store are untouched. piece.(*Pieces).MetadataComplete is proved against the same geometry.",
  "Assumed: zeebo/bencode (the parser itself is external: 'all byte strings' enters through the arbitrary BInfo). Not under contract yet: ReadTorrent, ReadMagnet, WriteTorrent (info-hash identity and tracker/web-seed lists), New.",
  "DESIGN.md 5/C13"),
}
not_claimed = {}
