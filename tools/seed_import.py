#!/usr/bin/env python3
"""Imports a seeded change produced by a sub-agent (dir with patch.diff, demo, meta.json),
re-validates it in a scratch worktree (suite passes with the change, demo fails with it,
passes without it) and runs the property's check against it on /repo (apply, check, revert).
usage: seed_import.py <srcdir> [<property override>]"""
import subprocess as _sp
if _sp.run(['git','-C','/repo','status','--porcelain'],capture_output=True,text=True).stdout.strip():
    raise SystemExit('refusing: /repo has uncommitted changes (commit them first; this tool runs git checkout -- .)')
import json, os, shutil, subprocess, sys, tempfile
ENV = dict(os.environ, GOFLAGS='-mod=mod', GOPROXY='off', GOSUMDB='off', GOTOOLCHAIN='local')
def sh(cmd, cwd=None, timeout=1500):
    r = subprocess.run(cmd, shell=True, cwd=cwd, env=ENV, capture_output=True, text=True, timeout=timeout)
    return r.returncode, (r.stdout + r.stderr)
src = sys.argv[1].rstrip('/')
meta = json.load(open(os.path.join(src, 'meta.json')))
name = meta['name']
prop = sys.argv[2] if len(sys.argv) > 2 else meta['property']
dst = os.path.join('/verif/seeded', name)
os.makedirs(dst, exist_ok=True)
for f in os.listdir(src):
    shutil.copy(os.path.join(src, f), dst)
wt = tempfile.mkdtemp(prefix='seedchk', dir='/tmp')
os.rmdir(wt)
sh(f'git -C /repo worktree add -q --detach {wt} HEAD')
ran = {}
try:
    demo = os.path.join(dst, os.path.basename(meta['demo_file']))
    dest = os.path.join(wt, meta['demo_dest'] if 'demo_dest' in meta else os.path.join(meta['demo_dir'], os.path.basename(meta['demo_file'])))
    if os.path.isdir(dest) or dest.endswith('/'):
        dest = os.path.join(dest, os.path.basename(demo))
    pkgdir = os.path.dirname(os.path.relpath(dest, wt))
    rc, out = sh(f'git apply {dst}/patch.diff', cwd=wt)
    ran['apply'] = rc == 0
    rc, out = sh('go build ./... && go test -vet=off -count=1 ./... 2>&1 | tail -30', cwd=wt)
    ran['suite_passes_with_change'] = rc == 0 and 'FAIL' not in out
    shutil.copy(demo, dest)
    rc1, out1 = sh(f'go test -vet=off -count=1 -timeout 300s ./{pkgdir}/ 2>&1 | tail -15', cwd=wt)
    ran['demo_fails_with_change'] = 'FAIL' in out1 or 'panic' in out1
    sh(f'git apply -R {dst}/patch.diff', cwd=wt)
    rc2, out2 = sh(f'go test -vet=off -count=1 -timeout 300s ./{pkgdir}/ 2>&1 | tail -15', cwd=wt)
    ran['demo_passes_without_change'] = 'FAIL' not in out2 and 'panic' not in out2 and 'ok' in out2
    ran['demo_output_with_change'] = out1[-600:]
finally:
    sh(f'git -C /repo worktree remove --force {wt}')
# run the check against it on /repo
rc, out = sh(f'git -C /repo apply {dst}/patch.diff')
try:
    rc, out = sh(f'/verif/bin/govc check {prop}', cwd='/verif')
finally:
    sh('git -C /repo checkout -- .')
viol = [l for l in out.splitlines() if l.startswith('VIOLATION')]
ran['check_cmd'] = f'/verif/bin/govc check {prop}'
ran['check_exit'] = rc
ran['detected'] = rc == 1 and len(viol) > 0
ran['violations'] = [l.split('obligation=')[1].split()[0] + (' (replayed)' if 'no-failing-input-found' not in l else '') for l in viol][:8]
meta['confirmed_by_me'] = ran
meta['property'] = prop
json.dump(meta, open(os.path.join(dst, 'meta.json'), 'w'), indent=1)
print(name, prop, {k: v for k, v in ran.items() if k not in ('demo_output_with_change',)})
# restore evidence of unchanged tree
sh(f'/verif/bin/govc check {prop}', cwd='/verif')
