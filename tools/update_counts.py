#!/usr/bin/env python3
"""Runs every claimed check once and records the number of obligations it
generates in /verif/expected_counts.json (vacuity guard (d) of DESIGN.md 3.8).
Run after every change of the engine or of the contracts, before committing."""
import json, subprocess, re
m = json.load(open('/verif/MANIFEST.json'))
counts = {}
for c in m['checks']:
    pid = c['property_id']
    out = subprocess.run(c['quick_cmd'], shell=True, capture_output=True, text=True, cwd='/verif').stdout
    mm = re.search(r'govc check %s \(quick\): (\d+) obligations, (\d+) discharged, (\d+) known-finding, (\d+) violations' % pid, out)
    print(pid, mm.group(0) if mm else out[-300:])
    if mm:
        counts[pid] = int(mm.group(1))
json.dump(counts, open('/verif/expected_counts.json', 'w'), indent=1)
