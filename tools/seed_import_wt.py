#!/usr/bin/env python3
"""Like seed_import.py, but never touches /repo's working tree: the seeded change is
validated AND checked in a scratch worktree of /repo's HEAD (govc check --repo <wt>
--verif <scratch copy of the read-only inputs of /verif>), so several seeds can be
processed in parallel and while contracts are being edited. Both are removed afterwards.
usage: seed_import_wt.py <srcdir> [<property override>] [--extra C11,C16]"""
import json, os, shutil, subprocess, sys, tempfile
ENV = dict(os.environ, GOFLAGS='-mod=mod', GOPROXY='off', GOSUMDB='off', GOTOOLCHAIN='local')
def sh(cmd, cwd=None, timeout=2400):
    r = subprocess.run(cmd, shell=True, cwd=cwd, env=ENV, capture_output=True, text=True, timeout=timeout)
    return r.returncode, (r.stdout + r.stderr)
args = [a for a in sys.argv[1:] if not a.startswith('--')]
extra = []
for i, a in enumerate(sys.argv):
    if a == '--extra':
        extra = sys.argv[i + 1].split(',')
        args = [x for x in args if x != sys.argv[i + 1]]
src = args[0].rstrip('/')
meta = json.load(open(os.path.join(src, 'meta.json')))
name = meta['name']
prop = args[1] if len(args) > 1 else meta['property']
dst = os.path.join('/verif/seeded', name)
os.makedirs(dst, exist_ok=True)
for f in os.listdir(src):
    shutil.copy(os.path.join(src, f), dst)
wt = tempfile.mkdtemp(prefix='seedchk', dir='/tmp')
os.rmdir(wt)
vs = tempfile.mkdtemp(prefix='seedverif', dir='/tmp')
for f in ('externs', 'replay', 'known_findings.json', 'expected_counts.json'):
    p = os.path.join('/verif', f)
    (shutil.copytree if os.path.isdir(p) else shutil.copy)(p, os.path.join(vs, f))
sh(f'git -C /repo worktree add -q --detach {wt} HEAD')
ran = {}
try:
    demo = os.path.join(dst, os.path.basename(meta['demo_file']))
    dest = os.path.join(wt, meta['demo_dest'] if 'demo_dest' in meta else os.path.join(meta['demo_dir'], os.path.basename(meta['demo_file'])))
    if os.path.isdir(dest) or dest.endswith('/'):
        dest = os.path.join(dest, os.path.basename(demo))
    pkgdir = os.path.dirname(os.path.relpath(dest, wt))
    rc, out = sh(f'git apply {dst}/patch.diff', cwd=wt)
    ran['apply'] = rc == 0
    rc, out = sh('go build ./... && go test -vet=off -count=1 ./... 2>&1 | tail -30', cwd=wt)
    ran['suite_passes_with_change'] = rc == 0 and 'FAIL' not in out
    shutil.copy(demo, dest)
    rc1, out1 = sh(f'go test -vet=off -count=1 -timeout 300s ./{pkgdir}/ 2>&1 | tail -15', cwd=wt)
    ran['demo_fails_with_change'] = 'FAIL' in out1 or 'panic' in out1
    sh(f'git apply -R {dst}/patch.diff', cwd=wt)
    rc2, out2 = sh(f'go test -vet=off -count=1 -timeout 300s ./{pkgdir}/ 2>&1 | tail -15', cwd=wt)
    ran['demo_passes_without_change'] = 'FAIL' not in out2 and 'panic' not in out2 and 'ok' in out2
    ran['demo_output_with_change'] = out1[-600:]
    os.remove(dest)
    sh(f'git apply {dst}/patch.diff', cwd=wt)
    det = {}
    for pr in [prop] + extra:
        rc, out = sh(f'/verif/bin/govc check {pr} --repo {wt} --verif {vs}', cwd=vs)
        viol = [l for l in out.splitlines() if l.startswith('VIOLATION')]
        det[pr] = (rc, viol)
    rc, viol = det[prop]
    ran['check_cmd'] = f'/verif/bin/govc check {prop} (on a scratch worktree of /repo HEAD with the patch applied)'
    ran['check_exit'] = rc
    ran['detected'] = rc == 1 and len(viol) > 0
    ran['violations'] = [l.split('obligation=')[1].split()[0] + (' (replayed)' if 'no-failing-input-found' not in l else '') for l in viol][:8]
    for pr in extra:
        rc, viol = det[pr]
        ran['also_' + pr] = [l.split('obligation=')[1].split()[0] for l in viol][:8]
finally:
    sh(f'git -C /repo worktree remove --force {wt}')
    shutil.rmtree(vs, ignore_errors=True)
meta['confirmed_by_me'] = ran
meta['property'] = prop
json.dump(meta, open(os.path.join(dst, 'meta.json'), 'w'), indent=1)
print(name, prop, {k: v for k, v in ran.items() if k not in ('demo_output_with_change',)})
