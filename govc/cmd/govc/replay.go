package main

import (
	"encoding/json"
	"fmt"
	"os"

	"govc/eng"
)

// writeReplay writes the replay file of a failed obligation. It returns true
// when a concrete failing input was reproduced against the real code.
func writeReplay(path, id string, ob *eng.Obligation, res *checkResult, o checkOpts) bool {
	rec := map[string]interface{}{
		"property":   id,
		"obligation": ob.Name,
		"kind":       ob.Kind,
		"function":   ob.Func,
		"at":         ob.PosStr,
		"clause":     ob.Clause,
		"status":     ob.Status,
		"solver":     ob.Solver,
		"seconds":    ob.Seconds,
		"solver_outputs": ob.Outputs,
		"error":      ob.Err,
		"checker_cmd": fmt.Sprintf("/verif/bin/govc check %s --tier %s", id, o.tier),
	}
	confirmed := false
	if ob.Model != "" {
		rec["model"] = ob.Model
	}
	if (ob.Status == "failed" || ob.Status == "unknown") && ob.Model != "" {
		if r := tryReplay(ob, res, o); r != nil {
			rec["replay"] = r
			confirmed = r.Confirmed
		}
	}
	rec["confirmed_on_real_code"] = confirmed
	data, _ := json.MarshalIndent(rec, "", " ")
	os.WriteFile(path, data, 0o644)
	return confirmed
}

type replayResult struct {
	Confirmed bool   `json:"confirmed"`
	Test      string `json:"test_source"`
	Output    string `json:"output"`
	Inputs    string `json:"inputs"`
	Why       string `json:"why"`
}

func tryReplay(ob *eng.Obligation, res *checkResult, o checkOpts) *replayResult {
	return replayGeneric(ob, res, o)
}

func cmdReplay(args []string) {
	if len(args) < 1 {
		fmt.Fprintln(os.Stderr, "usage: govc replay <file>")
		os.Exit(2)
	}
	data, err := os.ReadFile(args[0])
	if err != nil {
		fmt.Fprintln(os.Stderr, err)
		os.Exit(2)
	}
	var rec map[string]interface{}
	json.Unmarshal(data, &rec)
	fmt.Printf("obligation: %v\nat: %v\nclause: %v\nstatus: %v (%v)\n", rec["obligation"], rec["at"], rec["clause"], rec["status"], rec["solver_outputs"])
	if r, ok := rec["replay"].(map[string]interface{}); ok {
		fmt.Printf("replay confirmed: %v\ninputs: %v\noutput:\n%v\n", r["confirmed"], r["inputs"], r["output"])
		if src, ok := r["test_source"].(string); ok && src != "" {
			out, ok2 := rerunTest(src, rec["function"].(string))
			fmt.Printf("re-run now: confirmed=%v\n%s\n", ok2, out)
			if ok2 {
				os.Exit(1)
			}
			os.Exit(0)
		}
	}
	fmt.Println("no concrete failing input is recorded for this obligation")
}
