package main

import (
	"encoding/json"
	"flag"
	"fmt"
	"os"
	"path/filepath"
	"sort"
	"strconv"
	"strings"
	"time"

	"govc/eng"
)

type knownFinding struct {
	Property   string `json:"property"`
	Obligation string `json:"obligation"` // exact name, or prefix ending in '*'
	Witness    string `json:"witness"`
	What       string `json:"what"`
}

type fixedFinding struct {
	Property   string `json:"property"`
	Obligation string `json:"obligation"`
	Commit     string `json:"commit"`
	What       string `json:"what"`
}

type findingsFile struct {
	Known []knownFinding `json:"known"`
	Fixed []fixedFinding `json:"fixed"`
}

func loadFindings(verif string) findingsFile {
	var ff findingsFile
	data, err := os.ReadFile(filepath.Join(verif, "known_findings.json"))
	if err == nil {
		json.Unmarshal(data, &ff)
	}
	return ff
}

func matchName(pat, name string) bool {
	if strings.HasSuffix(pat, "*") {
		return strings.HasPrefix(name, strings.TrimSuffix(pat, "*"))
	}
	return pat == name
}

type checkOpts struct {
	repo, verif string
	tier        string
	seed        int
	timeout     time.Duration
	overlay     map[string][]byte
	quiet       bool
	noEvidence  bool
}

type checkResult struct {
	Obls       []*eng.Obligation
	Failed     []*eng.Obligation // unlisted failures
	Known      map[string][]*eng.Obligation
	Engine     *eng.Engine
	Funcs      []string
	Wall       float64
	SolverSecs float64
	LoadErrs   []string
	Trusted    []string
}

func hasProp(b *eng.Block, id string) bool {
	for _, p := range b.Props {
		if p == id {
			return true
		}
	}
	return false
}

// runCheck verifies every contract block that lists property id.
func runCheck(id string, o checkOpts) (*checkResult, error) {
	t0 := time.Now()
	p, err := eng.Load(o.repo, o.verif, o.overlay)
	if err != nil {
		return nil, err
	}
	res := &checkResult{Known: map[string][]*eng.Obligation{}}
	res.LoadErrs = p.LoadErrs
	e := eng.NewEngine(p)
	e.CheckProp = id
	res.Engine = e
	if len(p.LoadErrs) > 0 {
		// the repository (with contracts) does not type-check: every proof is void
		for _, le := range p.LoadErrs {
			e.Obls = append(e.Obls, &eng.Obligation{Name: "load:" + shorten(le, 80), Kind: "bind", Props: []string{id}, Err: le, Clause: "repository and contract vocabulary type-check"})
			break
		}
	}
	for _, b := range p.Blocks {
		if b.Kind != "func" || !hasProp(b, id) {
			continue
		}
		fn := p.LookupFunc(b.Pkg, b.Name)
		if fn == nil {
			e.Obls = append(e.Obls, &eng.Obligation{Name: strings.TrimPrefix(b.Pkg, eng.ModPath+"/") + "." + b.Name + ":bind:func", Kind: "bind", Props: []string{id}, Err: "contract names a function that does not exist", Clause: b.Name, PosStr: fmt.Sprintf("%s:%d", b.File, b.Line)})
			continue
		}
		if b.Has("trusted") {
			res.Trusted = append(res.Trusted, eng.FuncKey(fn))
			continue
		}
		res.Funcs = append(res.Funcs, eng.FuncKey(fn))
		e.VerifyFunc(fn, b, b.Props)
	}
	// lemmas tagged with the property
	e.VerifyLemmas(id)
	cfg := eng.SolverCfg{Timeout: o.timeout, Parallel: 5, Seed: o.seed, KeepDir: os.Getenv("GOVC_KEEP")}
	if o.tier == "thorough" {
		cfg.Confirm = true
	}
	e.Discharge(cfg)
	ff := loadFindings(o.verif)
	for _, ob := range e.Obls {
		res.SolverSecs += ob.Seconds
		if ob.Status == "proved" || ob.Status == "inconclusive" || ob.Status == "waived" {
			continue
		}
		matched := false
		for _, k := range ff.Known {
			if matchName(k.Obligation, ob.Name) {
				res.Known[k.Obligation] = append(res.Known[k.Obligation], ob)
				matched = true
				break
			}
		}
		if !matched {
			res.Failed = append(res.Failed, ob)
		}
	}
	res.Obls = e.Obls
	res.Wall = time.Since(t0).Seconds()
	return res, nil
}

func shorten(s string, n int) string {
	s = strings.Replace(s, "\n", " ", -1)
	if len(s) > n {
		return s[:n]
	}
	return s
}

func sanitizeFile(s string) string {
	var sb strings.Builder
	for _, r := range s {
		if r >= 'a' && r <= 'z' || r >= 'A' && r <= 'Z' || r >= '0' && r <= '9' || r == '.' || r == '-' || r == '_' {
			sb.WriteRune(r)
		} else {
			sb.WriteByte('_')
		}
	}
	out := sb.String()
	if len(out) > 150 {
		out = out[:150]
	}
	return out
}

func cmdCheck(args []string) {
	fs := flag.NewFlagSet("check", flag.ExitOnError)
	tier := fs.String("tier", "quick", "quick|thorough")
	repo := fs.String("repo", "/repo", "repository")
	verif := fs.String("verif", "/verif", "verif dir")
	fs.Parse(reorder(args))
	if fs.NArg() < 1 {
		fmt.Fprintln(os.Stderr, "usage: govc check <property> [--tier quick|thorough]")
		os.Exit(2)
	}
	id := fs.Arg(0)
	if t := os.Getenv("VERIF_TIER"); t == "quick" || t == "thorough" {
		*tier = t
	}
	seed := 0
	if s := os.Getenv("VERIF_SEED"); s != "" {
		seed, _ = strconv.Atoi(s)
	}
	o := checkOpts{repo: *repo, verif: *verif, tier: *tier, seed: seed, timeout: 45 * time.Second}
	if *tier == "thorough" {
		o.timeout = 90 * time.Second
	}
	res, err := runCheck(id, o)
	if err != nil {
		fmt.Fprintln(os.Stderr, "govc: cannot load repository:", err)
		os.Exit(2)
	}
	violations := 0
	replayDir := filepath.Join(*verif, "replays", id)
	os.MkdirAll(replayDir, 0o755)
	ff := loadFindings(*verif)
	for _, k := range ff.Known {
		if k.Property != id {
			continue
		}
		if obs := res.Known[k.Obligation]; len(obs) > 0 {
			fmt.Printf("KNOWN-FINDING: property=%s %s [obligation %s; witness: %s]\n", id, k.What, obs[0].Name, k.Witness)
		}
	}
	var mutRes *mutantSummary
	if *tier == "thorough" {
		mutRes = runMutantsFor(id, o)
		for _, m := range mutRes.Survived {
			fmt.Printf("SELFTEST-MISS: mutant %s was not detected by the %s check\n", m, id)
		}
	}
	for _, ob := range res.Failed {
		violations++
		path := filepath.Join(replayDir, sanitizeFile(ob.Name)+".json")
		confirmed := writeReplay(path, id, ob, res, o)
		suffix := ""
		if !confirmed {
			suffix = " no-failing-input-found"
		}
		fmt.Printf("VIOLATION property=%s replay=%s obligation=%s kind=%s at=%s%s\n", id, path, ob.Name, ob.Kind, ob.PosStr, suffix)
	}
	// vacuity guard (d): obligation count against the committed expectation
	exp := expectedCount(*verif, id)
	total := 0
	proved := 0
	inconclusive := 0
	for _, ob := range res.Obls {
		if ob.Cover && ob.Status == "inconclusive" {
			inconclusive++
			continue
		}
		if ob.Status == "waived" {
			continue
		}
		total++
		if ob.Status == "proved" {
			proved++
		}
	}
	if exp > 0 && total < exp-exp*2/5 {
		violations++
		path := filepath.Join(replayDir, "obligation-count.json")
		os.WriteFile(path, []byte(fmt.Sprintf(`{"obligation":"count","expected_at_least":%d,"generated":%d,"what":"the proof of %s generates far fewer obligations than on the reference tree: contracts no longer bind to the code"}`, exp-exp*2/5, total, id)), 0o644)
		fmt.Printf("VIOLATION property=%s replay=%s obligation=count kind=vacuous generated=%d expected>=%d no-failing-input-found\n", id, path, total, exp-exp*2/5)
	}
	writeEvidence(*verif, id, *tier, seed, res, total, proved, inconclusive, violations, mutRes)
	fmt.Printf("govc check %s (%s): %d obligations, %d discharged, %d known-finding, %d violations, %d functions, %.1fs\n", id, *tier, total, proved, total-proved-len(res.Failed), violations, len(res.Funcs), res.Wall)
	if violations > 0 {
		os.Exit(1)
	}
}

// reorder moves flags before positional arguments so that
// "check C04 --tier quick" works with package flag.
func reorder(args []string) []string {
	var flags, pos []string
	for i := 0; i < len(args); i++ {
		a := args[i]
		if strings.HasPrefix(a, "-") {
			flags = append(flags, a)
			if !strings.Contains(a, "=") && i+1 < len(args) {
				flags = append(flags, args[i+1])
				i++
			}
			continue
		}
		pos = append(pos, a)
	}
	return append(flags, pos...)
}

func expectedCount(verif, id string) int {
	data, err := os.ReadFile(filepath.Join(verif, "expected_counts.json"))
	if err != nil {
		return 0
	}
	m := map[string]int{}
	json.Unmarshal(data, &m)
	return m[id]
}

func writeEvidence(verif, id, tier string, seed int, res *checkResult, total, proved, inconclusive, violations int, mut *mutantSummary) {
	e := res.Engine
	solverWins := map[string]int{}
	kinds := map[string]int{}
	var samples []map[string]interface{}
	knownN := 0
	for _, obs := range res.Known {
		knownN += len(obs)
	}
	sort.SliceStable(res.Obls, func(i, j int) bool { return res.Obls[i].Name < res.Obls[j].Name })
	var waived []string
	for i, ob := range res.Obls {
		if ob.Status == "waived" {
			waived = append(waived, ob.Name+" at "+ob.PosStr+": "+ob.Err)
		}
		if ob.Status == "proved" {
			solverWins[ob.Solver]++
		}
		kinds[ob.Kind]++
		if (ob.Kind == "post" || ob.Kind == "inv-pres" || ob.Kind == "pre" || ob.Kind == "lemma") && len(samples) < 8 && i%3 == 0 {
			samples = append(samples, map[string]interface{}{"obligation": ob.Name, "clause": ob.Clause, "at": ob.PosStr, "status": ob.Status, "solver": ob.Solver, "seconds": round3(ob.Seconds)})
		}
	}
	if len(samples) == 0 {
		for _, ob := range res.Obls {
			if len(samples) < 5 {
				samples = append(samples, map[string]interface{}{"obligation": ob.Name, "clause": ob.Clause, "at": ob.PosStr, "status": ob.Status, "solver": ob.Solver, "seconds": round3(ob.Seconds)})
			}
		}
	}
	var externs, unverified, inlines []string
	for k := range e.ExternsUsed {
		externs = append(externs, k)
	}
	for k := range e.Unverified {
		unverified = append(unverified, k)
	}
	for k := range e.Inlines {
		inlines = append(inlines, strings.TrimPrefix(k, eng.ModPath+"/"))
	}
	sort.Strings(externs)
	sort.Strings(unverified)
	sort.Strings(inlines)
	sort.Strings(res.Funcs)
	var funcs []string
	for _, f := range res.Funcs {
		funcs = append(funcs, strings.TrimPrefix(f, eng.ModPath+"/"))
	}
	trusted := []string{
		"govc VC generator (/verif/govc): SSA (golang.org/x/tools v0.29.0, NaiveForm) to SMT-LIB translation",
		"SMT solvers z3 4.8.12, z3 5.1.0, cvc5 1.0 (first definite answer wins)",
		"integers: exact (mathematical Int with the wrap of each Go type after every operation; uint8 as 8-bit vectors); int is 64-bit",
		"heap: closed (every reference loaded from memory was allocated before); pointers of different static struct types do not alias; no slice has more than 2^40 elements; make() accepts at most 2^47 bytes",
		"float64 values are uninterpreted; goroutine interleaving only through declared monitors/atomics; channel operations do not block",
		"sentinel error variables are never reassigned",
	}
	for _, x := range externs {
		trusted = append(trusted, "assumed contract of external function "+x)
	}
	var assumed []string
	for k := range e.Assumed {
		assumed = append(assumed, k)
	}
	sort.Strings(assumed)
	for _, a := range assumed {
		trusted = append(trusted, "ASSUMED at function entry ('assume' clause, not required from callers): "+a)
	}
	for _, t := range res.Trusted {
		trusted = append(trusted, "ASSUMED contract of repository function (flag 'trusted', body not verified): "+strings.TrimPrefix(t, eng.ModPath+"/"))
	}
	for _, w := range waived {
		trusted = append(trusted, "NOT PROVED (waived in the contract, stated here as an assumption): "+w)
	}
	for _, x := range unverified {
		trusted = append(trusted, "callee without contract or body, treated as total with arbitrary results (arguments' targets havocked): "+x)
	}
	cov := map[string]interface{}{
		"obligations":                total - knownN,
		"discharged":                 proved,
		"checker_cmd":                fmt.Sprintf("/verif/bin/govc check %s --tier %s", id, tier),
		"trusted_base":               trusted,
		"functions_under_contract":   funcs,
		"callees_inlined":            inlines,
		"known_finding_obligations":  knownN,
		"undischarged":               len(res.Failed),
		"vacuity_covers_inconclusive": inconclusive,
		"obligation_kinds":           kinds,
		"solver_wins":                solverWins,
		"solver_seconds_total":       round3(res.SolverSecs),
		"samples":                    samples,
		"bounded":                    []string{},
		"not_proved_waived":          waived,
		"slowest_obligations":        slowest(res.Obls, 5),
	}
	if mut != nil {
		cov["mutants_run"] = mut.Run
		cov["mutants_killed"] = mut.Killed
		cov["mutants_survived"] = mut.Survived
	}
	ev := map[string]interface{}{
		"property_id": id,
		"tier":        tier,
		"seed":        seed,
		"level":       "proof",
		"coverage":    cov,
		"assumptions": trusted,
		"wall_s":      round3(res.Wall),
		"violations":  violations,
	}
	os.MkdirAll(filepath.Join(verif, "evidence"), 0o755)
	data, _ := json.MarshalIndent(ev, "", " ")
	os.WriteFile(filepath.Join(verif, "evidence", id+".json"), data, 0o644)
}

func round3(f float64) float64 {
	return float64(int(f*1000+0.5)) / 1000
}

// slowest lists the n obligations that took longest (name, seconds, solver):
// the ones closest to the per-obligation timeout.
func slowest(obs []*eng.Obligation, n int) []string {
	cp := append([]*eng.Obligation(nil), obs...)
	sort.SliceStable(cp, func(i, j int) bool { return cp[i].Seconds > cp[j].Seconds })
	var out []string
	for i := 0; i < n && i < len(cp); i++ {
		if cp[i].Cover {
			n++
			continue
		}
		out = append(out, fmt.Sprintf("%s %.1fs %s", cp[i].Name, cp[i].Seconds, cp[i].Solver))
	}
	return out
}
