package main

import (
	"encoding/json"
	"fmt"
	"os"
	"path/filepath"
	"sort"
	"strings"
	"sync"
	"time"

	"govc/eng"
)

type mutant struct {
	Name     string   `json:"name"`
	File     string   `json:"file"` // relative to the repository
	Old      string   `json:"old"`
	New      string   `json:"new"`
	Props    []string `json:"properties"`
	Expect   string   `json:"expect"` // obligation name prefix expected to fail (optional)
	Comment  string   `json:"comment"`
	Edits    []edit   `json:"edits"` // additional edits (two-site mutants)
}

type edit struct {
	File string `json:"file"`
	Old  string `json:"old"`
	New  string `json:"new"`
}

type mutantSummary struct {
	Run      int
	Killed   int
	Survived []string
	Details  []string
}

func loadMutants(verif string) []mutant {
	var out []mutant
	files, _ := filepath.Glob(filepath.Join(verif, "selftest", "mutants", "*.json"))
	sort.Strings(files)
	for _, f := range files {
		data, err := os.ReadFile(f)
		if err != nil {
			continue
		}
		var ms []mutant
		if err := json.Unmarshal(data, &ms); err != nil {
			fmt.Fprintf(os.Stderr, "govc: bad mutant file %s: %v\n", f, err)
			continue
		}
		out = append(out, ms...)
	}
	return out
}

func (m mutant) overlay(repo string) (map[string][]byte, error) {
	ov := map[string][]byte{}
	apply := func(file, old, nw string) error {
		path := filepath.Join(repo, file)
		data, ok := ov[path]
		if !ok {
			d, err := os.ReadFile(path)
			if err != nil {
				return err
			}
			data = d
		}
		if n := strings.Count(string(data), old); n != 1 {
			return fmt.Errorf("mutant %s: pattern occurs %d times in %s", m.Name, n, file)
		}
		ov[path] = []byte(strings.Replace(string(data), old, nw, 1))
		return nil
	}
	if err := apply(m.File, m.Old, m.New); err != nil {
		return nil, err
	}
	for _, e := range m.Edits {
		if err := apply(e.File, e.Old, e.New); err != nil {
			return nil, err
		}
	}
	return ov, nil
}

// runMutantsFor applies every must-fail mutant registered for property id
// (through the loader's overlay; nothing is written to disk) and requires the
// check to report a failed obligation.
func runMutantsFor(id string, o checkOpts) *mutantSummary {
	sum := &mutantSummary{}
	var todo []mutant
	for _, m := range loadMutants(o.verif) {
		for _, p := range m.Props {
			if p == id {
				todo = append(todo, m)
			}
		}
	}
	var mu sync.Mutex
	var wg sync.WaitGroup
	sem := make(chan struct{}, 2)
	for _, m := range todo {
		wg.Add(1)
		sem <- struct{}{}
		go func(m mutant) {
			defer wg.Done()
			defer func() { <-sem }()
			ov, err := m.overlay(o.repo)
			if err != nil {
				mu.Lock()
				sum.Details = append(sum.Details, fmt.Sprintf("%s: not applicable to the current tree (%v)", m.Name, err))
				mu.Unlock()
				return
			}
			o2 := o
			o2.overlay = ov
			res, err := runCheck(id, o2)
			mu.Lock()
			defer mu.Unlock()
			sum.Run++
			if err != nil {
				sum.Details = append(sum.Details, fmt.Sprintf("%s: load error %v", m.Name, err))
				sum.Survived = append(sum.Survived, m.Name)
				return
			}
			killed := false
			var names []string
			for _, ob := range res.Failed {
				names = append(names, ob.Name+"("+ob.Status+")")
				if m.Expect == "" || strings.HasPrefix(ob.Name, m.Expect) {
					killed = true
				}
			}
			if killed {
				sum.Killed++
				sum.Details = append(sum.Details, fmt.Sprintf("%s: killed by %s", m.Name, strings.Join(firstN(names, 4), ", ")))
			} else {
				sum.Survived = append(sum.Survived, m.Name)
				sum.Details = append(sum.Details, fmt.Sprintf("%s: SURVIVED (failed: %s)", m.Name, strings.Join(firstN(names, 4), ", ")))
			}
		}(m)
	}
	wg.Wait()
	sort.Strings(sum.Survived)
	sort.Strings(sum.Details)
	return sum
}

func firstN(s []string, n int) []string {
	if len(s) > n {
		return s[:n]
	}
	return s
}

// selftest: run all (or one property's) mutants and report.
func cmdSelftest(args []string) {
	verif := "/verif"
	repo := "/repo"
	ids := map[string]bool{}
	only := ""
	for i := 0; i < len(args); i++ {
		switch args[i] {
		case "-repo":
			repo = args[i+1]
			i++
		case "-m":
			only = args[i+1]
			i++
		default:
			ids[args[i]] = true
		}
	}
	all := loadMutants(verif)
	byProp := map[string]bool{}
	for _, m := range all {
		if only != "" && m.Name != only {
			continue
		}
		for _, p := range m.Props {
			if len(ids) == 0 || ids[p] {
				byProp[p] = true
			}
		}
	}
	var props []string
	for p := range byProp {
		props = append(props, p)
	}
	sort.Strings(props)
	bad := 0
	for _, p := range props {
		o := checkOpts{repo: repo, verif: verif, tier: "quick", timeout: 10 * time.Second}
		if only != "" {
			// restrict by temporarily filtering
			onlyMutant = only
		}
		sum := runMutantsFor(p, o)
		fmt.Printf("%s: %d mutants, %d killed\n", p, sum.Run, sum.Killed)
		for _, d := range sum.Details {
			fmt.Println("   ", d)
		}
		bad += len(sum.Survived)
	}
	if bad > 0 {
		os.Exit(1)
	}
}

var onlyMutant string

var _ = eng.ModPath
