package main

import (
	"fmt"
	"govc/eng"
)

func init() {
	dbgHook = func(p *eng.Program) {
		for k, sp := range p.SPkgs {
			if len(k) > 30 {
				fmt.Println(k, len(sp.Members))
			}
		}
	}
}
