package main

import (
	"flag"
	"fmt"
	"os"
	"sort"
	"strings"
	"time"

	"govc/eng"
)

var dbgHook func(p *eng.Program)

func main() {
	if len(os.Args) < 2 {
		fmt.Fprintln(os.Stderr, "usage: govc <check|verify|selftest|replay> ...")
		os.Exit(2)
	}
	switch os.Args[1] {
	case "verify":
		cmdVerify(os.Args[2:])
	case "check":
		cmdCheck(os.Args[2:])
	case "selftest":
		cmdSelftest(os.Args[2:])
	case "replay":
		cmdReplay(os.Args[2:])
	default:
		fmt.Fprintln(os.Stderr, "unknown command", os.Args[1])
		os.Exit(2)
	}
}

// verify: debugging entry: govc verify [-v] [-keep dir] <pkg-suffix> [funcname-substring]
func cmdVerify(args []string) {
	fs := flag.NewFlagSet("verify", flag.ExitOnError)
	verbose := fs.Bool("v", false, "verbose")
	keep := fs.String("keep", "", "keep queries in dir")
	repo := fs.String("repo", "/repo", "repository")
	verif := fs.String("verif", "/verif", "verif dir")
	timeout := fs.Duration("timeout", 10*time.Second, "solver timeout")
	sweep := fs.Bool("sweep", false, "also run functions without contracts (safety only)")
	trace := fs.Bool("trace", false, "trace poison")
	fs.Parse(args)
	t0 := time.Now()
	p, err := eng.Load(*repo, *verif, nil)
	if err != nil {
		fmt.Fprintln(os.Stderr, "load:", err)
		os.Exit(2)
	}
	for _, e := range p.LoadErrs {
		fmt.Println("load error:", e)
	}
	fmt.Printf("loaded in %.1fs, %d blocks\n", time.Since(t0).Seconds(), len(p.Blocks))
	if dbgHook != nil && os.Getenv("GOVC_DBG") != "" {
		dbgHook(p)
	}
	pkgFilter, fnFilter := "", ""
	if fs.NArg() > 0 {
		pkgFilter = fs.Arg(0)
	}
	if fs.NArg() > 1 {
		fnFilter = fs.Arg(1)
	}
	e := eng.NewEngine(p)
	e.Trace = *trace
	n := 0
	for _, b := range p.Blocks {
		if b.Kind != "func" || !strings.HasSuffix(b.Pkg, pkgFilter) || !strings.Contains(b.Name, fnFilter) {
			continue
		}
		fn := p.LookupFunc(b.Pkg, b.Name)
		if fn == nil {
			fmt.Printf("BIND FAIL: no function %s in %s\n", b.Name, b.Pkg)
			continue
		}
		if b.Has("trusted") {
			continue
		}
		n++
		if err := e.VerifyFunc(fn, b, nil); err != nil {
			fmt.Println("  ", err)
		}
	}
	if *sweep {
		for _, fn := range p.AllFuncs(pkgFilter) {
			if !strings.Contains(fn.Name(), fnFilter) {
				continue
			}
			if p.Contracts[eng.FuncKey(fn)] != nil {
				continue
			}
			n++
			if err := e.VerifyFunc(fn, nil, nil); err != nil {
				fmt.Println("  ", err)
			}
		}
	}
	fmt.Printf("%d functions, %d obligations generated in %.1fs\n", n, len(e.Obls), time.Since(t0).Seconds())
	e.Discharge(eng.SolverCfg{Timeout: *timeout, Parallel: 8, KeepDir: *keep})
	counts := map[string]int{}
	sort.SliceStable(e.Obls, func(i, j int) bool { return e.Obls[i].Name < e.Obls[j].Name })
	for _, o := range e.Obls {
		counts[o.Status]++
		if *verbose || o.Status != "proved" {
			fmt.Printf("%-8s %-70s %s %.2fs %s %v\n", o.Status, o.Name, o.PosStr, o.Seconds, o.Solver, o.Outputs)
			if o.Status != "proved" {
				fmt.Printf("         clause: %s %s\n", o.Clause, o.Err)
				if len(o.ModelValues) > 0 && *verbose {
					fmt.Printf("         model: %v\n", o.ModelValues)
				}
			}
		}
	}
	fmt.Printf("result: %v  total %.1fs\n", counts, time.Since(t0).Seconds())
}
