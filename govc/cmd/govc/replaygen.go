package main

import "govc/eng"

func replayGeneric(ob *eng.Obligation, res *checkResult, o checkOpts) *replayResult { return nil }

func rerunTest(src, fn string) (string, bool) { return "", false }
