package main

import (
	"bytes"
	"encoding/json"
	"fmt"
	"os"
	"os/exec"
	"path/filepath"
	"regexp"
	"sort"
	"strings"

	"govc/eng"
)

var rePlaceholder = regexp.MustCompile(`\{\{([A-Za-z0-9_.\[\]]+)\}\}`)

// replayGeneric instantiates the replay template named by the contract with
// the solver's model and runs it against the real code with
// "go test -overlay" (nothing is written under the repository).
func replayGeneric(ob *eng.Obligation, res *checkResult, o checkOpts) *replayResult {
	if ob.ReplayTemplate == "" || len(ob.ModelValues) == 0 {
		return nil
	}
	tmplPath := filepath.Join(o.verif, "replay", ob.ReplayTemplate+".go.tmpl")
	tmpl, err := os.ReadFile(tmplPath)
	if err != nil {
		return &replayResult{Why: "no replay template " + tmplPath}
	}
	// arrays: names of the form base[k]
	arrays := map[string]map[int]string{}
	scalars := map[string]string{}
	for n, v := range ob.ModelValues {
		if k := strings.Index(n, "["); k >= 0 {
			var idx int
			fmt.Sscanf(n[k+1:], "%d", &idx)
			if arrays[n[:k]] == nil {
				arrays[n[:k]] = map[int]string{}
			}
			arrays[n[:k]][idx] = v
		} else {
			scalars[n] = v
		}
	}
	label := ob.Label
	if k := strings.Index(label, "@"); k >= 0 {
		label = label[:k]
	}
	var inputs []string
	src := rePlaceholder.ReplaceAllStringFunc(string(tmpl), func(m string) string {
		name := m[2 : len(m)-2]
		switch name {
		case "kind":
			return ob.Kind
		case "label":
			return label
		case "obligation":
			return ob.Name
		}
		if a, ok := arrays[name]; ok {
			var idx []int
			for k := range a {
				idx = append(idx, k)
			}
			sort.Ints(idx)
			var parts []string
			for _, k := range idx {
				parts = append(parts, a[k])
			}
			return strings.Join(parts, ", ")
		}
		if v, ok := scalars[name]; ok {
			return v
		}
		return "0"
	})
	for n, a := range arrays {
		var idx []int
		for k := range a {
			idx = append(idx, k)
		}
		sort.Ints(idx)
		var parts []string
		for _, k := range idx {
			parts = append(parts, a[k])
		}
		inputs = append(inputs, fmt.Sprintf("%s=[%s]", n, strings.Join(parts, " ")))
	}
	for n, v := range scalars {
		inputs = append(inputs, n+"="+v)
	}
	sort.Strings(inputs)
	out, ok := rerunTestIn(src, ob.Func, o.repo)
	return &replayResult{Confirmed: ok, Test: src, Output: out, Inputs: strings.Join(inputs, " ")}
}

func pkgDirOfFunc(fn string) string {
	// "github.com/jech/storrent/protocol.Read" / "github.com/jech/storrent/tor/piece.(*Pieces).ReadAt"
	fn = strings.TrimPrefix(fn, eng.ModPath)
	fn = strings.TrimPrefix(fn, "/")
	if k := strings.Index(fn, ".("); k >= 0 {
		return fn[:k]
	}
	if k := strings.LastIndex(fn, "."); k >= 0 {
		return fn[:k]
	}
	return ""
}

func rerunTest(src, fn string) (string, bool) { return rerunTestIn(src, fn, "/repo") }

func rerunTestIn(src, fn, repo string) (string, bool) {
	dir, err := os.MkdirTemp("", "govc-replay")
	if err != nil {
		return err.Error(), false
	}
	defer os.RemoveAll(dir)
	testFile := filepath.Join(dir, "zz_replay_test.go")
	os.WriteFile(testFile, []byte(src), 0o644)
	pkgDir := pkgDirOfFunc(fn)
	ov := map[string]map[string]string{"Replace": {filepath.Join(repo, pkgDir, "zz_replay_test.go"): testFile}}
	ovData, _ := json.Marshal(ov)
	ovFile := filepath.Join(dir, "overlay.json")
	os.WriteFile(ovFile, ovData, 0o644)
	cmd := exec.Command("bash", "-c", fmt.Sprintf("ulimit -v 8000000; cd %s && go test -overlay %s -vet=off -count=1 -timeout 60s -v -run 'TestGovcReplay' ./%s 2>&1 | tail -40", repo, ovFile, pkgDir))
	cmd.Env = append(os.Environ(), "GOFLAGS=-mod=mod", "GOPROXY=off", "GOSUMDB=off", "GOTOOLCHAIN=local")
	var out bytes.Buffer
	cmd.Stdout = &out
	cmd.Stderr = &out
	cmd.Run()
	o := out.String()
	return o, strings.Contains(o, "REPLAY-CONFIRMED")
}
