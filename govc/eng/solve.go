package eng

import (
	"bytes"
	"context"
	"fmt"
	"os"
	osexec "os/exec"
	"path/filepath"
	"strings"
	"sync"
	"time"

	. "govc/term"
)

type SolverCfg struct {
	Timeout   time.Duration
	Parallel  int
	Seed      int
	KeepDir   string // when set, queries are kept there
	Confirm   bool   // cross-solver confirmation of unsat (thorough)
	Solvers   []string
}

type solverRun struct {
	name   string
	status string // unsat sat unknown timeout error
	out    string
	secs   float64
}

func solverCmd(name, file string, timeout time.Duration) *osexec.Cmd {
	ms := int(timeout / time.Millisecond)
	switch name {
	case "z3-new":
		return osexec.Command("z3-new", fmt.Sprintf("-t:%d", ms), file)
	case "z3":
		return osexec.Command("/usr/bin/z3", fmt.Sprintf("-t:%d", ms), file)
	case "cvc5":
		return osexec.Command("cvc5", fmt.Sprintf("--tlimit=%d", ms), "--produce-models", file)
	}
	return nil
}

func runSolver(ctx context.Context, name, file string, timeout time.Duration) solverRun {
	t0 := time.Now()
	cmd := solverCmd(name, file, timeout)
	var out bytes.Buffer
	cmd.Stdout = &out
	cmd.Stderr = &out
	if err := cmd.Start(); err != nil {
		return solverRun{name: name, status: "error", out: err.Error()}
	}
	done := make(chan error, 1)
	go func() { done <- cmd.Wait() }()
	select {
	case <-done:
	case <-ctx.Done():
		cmd.Process.Kill()
		<-done
		return solverRun{name: name, status: "cancelled", secs: time.Since(t0).Seconds()}
	case <-time.After(timeout + 2*time.Second):
		cmd.Process.Kill()
		<-done
		return solverRun{name: name, status: "timeout", out: out.String(), secs: time.Since(t0).Seconds()}
	}
	o := out.String()
	first := strings.TrimSpace(strings.SplitN(o, "\n", 2)[0])
	st := "error"
	switch {
	case first == "unsat":
		st = "unsat"
	case first == "sat":
		st = "sat"
	case first == "unknown":
		st = "unknown"
	case strings.Contains(first, "timeout") || strings.Contains(o, "interrupted by timeout"):
		st = "timeout"
	}
	return solverRun{name: name, status: st, out: o, secs: time.Since(t0).Seconds()}
}

// Discharge runs the solvers on all obligations.
func (e *Engine) Discharge(cfg SolverCfg) {
	if cfg.Parallel <= 0 {
		cfg.Parallel = 8
	}
	if len(cfg.Solvers) == 0 {
		cfg.Solvers = []string{"z3-new", "z3", "cvc5"}
	}
	if cfg.Seed%3 == 1 {
		cfg.Solvers = []string{cfg.Solvers[1], cfg.Solvers[0], cfg.Solvers[2]}
	} else if cfg.Seed%3 == 2 {
		cfg.Solvers = []string{cfg.Solvers[2], cfg.Solvers[0], cfg.Solvers[1]}
	}
	dir := cfg.KeepDir
	if dir == "" {
		d, err := os.MkdirTemp("", "govc-q")
		if err != nil {
			panic(err)
		}
		dir = d
		defer os.RemoveAll(d)
	} else {
		os.MkdirAll(dir, 0o755)
	}
	// Build query texts sequentially (term context is not thread safe).
	type job struct {
		ob    *Obligation
		file  string
		qfile string // quantifier-free weakening, tried first
		sfile string // the same with the strict instantiation policy (smaller), tried before that
	}
	var jobs []job
	for i, ob := range e.Obls {
		if ob.Status != "" {
			continue
		}
		if ob.Err != "" {
			ob.Status = "failed"
			continue
		}
		c := e.C
		var q string
		if ob.Cover {
			if ob.Hyp.IsFalse() {
				ob.Status = "failed"
				ob.Solver = "simplifier"
				continue
			}
			q = c.Query([]*Term{ob.Hyp}, nil)
		} else {
			neg := c.And(ob.Hyp, c.Not(ob.Goal))
			if neg.IsFalse() {
				ob.Status = "proved"
				ob.Solver = "simplifier"
				continue
			}
			e.instHints = ob.Hints
			q = c.Query(e.prepareGoal(ob.Hyp, ob.Goal), ob.ModelTerms)
		}
		q = "; " + ob.Name + "\n; " + strings.Replace(ob.Clause, "\n", " ", -1) + "\n" + q
		ob.QuerySz = len(q)
		if len(q) > 4<<20 {
			ob.Status = "failed"
			ob.Err = fmt.Sprintf("verification condition too large (%d bytes)", len(q))
			continue
		}
		f := filepath.Join(dir, fmt.Sprintf("q%04d.smt2", i))
		if err := os.WriteFile(f, []byte(q), 0o644); err != nil {
			panic(err)
		}
		j := job{ob: ob, file: f}
		if !ob.Cover && strings.Contains(q, "(forall ") {
			q2 := "; " + ob.Name + " (quantified hypotheses replaced by instances)\n" + c.QueryOpt(e.prepareGoalMode(ob.Hyp, ob.Goal, true), ob.ModelTerms, true)
			if os.Getenv("GOVC_DEBUGQF") != "" && (strings.Contains(q2, "(forall ") || strings.Contains(q2, "(exists ")) {
				os.WriteFile(filepath.Join(dir, fmt.Sprintf("q%04d.notqf.smt2", i)), []byte(q2), 0o644)
			}
			if !strings.Contains(q2, "(forall ") && !strings.Contains(q2, "(exists ") {
				j.qfile = filepath.Join(dir, fmt.Sprintf("q%04d.qf.smt2", i))
				os.WriteFile(j.qfile, []byte(q2), 0o644)
				q3 := "; " + ob.Name + " (quantified hypotheses replaced by instances, strict policy)\n" + c.QueryOpt(e.prepareGoalMode2(ob.Hyp, ob.Goal, true, true), ob.ModelTerms, true)
				if len(q3) < len(q2)*3/4 && !strings.Contains(q3, "(forall ") && !strings.Contains(q3, "(exists ") {
					j.sfile = filepath.Join(dir, fmt.Sprintf("q%04d.qfs.smt2", i))
					os.WriteFile(j.sfile, []byte(q3), 0o644)
				}
			}
		}
		jobs = append(jobs, j)
	}
	sem := make(chan struct{}, cfg.Parallel)
	var wg sync.WaitGroup
	for _, j := range jobs {
		wg.Add(1)
		sem <- struct{}{}
		go func(j job) {
			defer wg.Done()
			defer func() { <-sem }()
			if j.sfile != "" {
				// stage 0: the small quantifier-free weakening
				c0 := cfg
				if c0.Timeout > 8*time.Second {
					c0.Timeout = 8 * time.Second
				}
				tmp := &Obligation{Name: j.ob.Name, ModelNames: j.ob.ModelNames}
				raceOne(tmp, j.sfile, c0)
				if tmp.Status == "proved" {
					j.ob.Status, j.ob.Solver, j.ob.Seconds, j.ob.Outputs = "proved", tmp.Solver+"(qf-strict)", tmp.Seconds, tmp.Outputs
					return
				}
			}
			if j.qfile != "" {
				// stage 1: the quantifier-free weakening; unsat is a proof
				c1 := cfg
				tmp := &Obligation{Name: j.ob.Name, ModelNames: j.ob.ModelNames}
				raceOne(tmp, j.qfile, c1)
				if tmp.Status == "proved" {
					j.ob.Status, j.ob.Solver, j.ob.Seconds, j.ob.Outputs = "proved", tmp.Solver+"(qf)", tmp.Seconds, tmp.Outputs
					return
				}
				j.ob.Candidate = tmp.Model
				j.ob.CandidateValues = tmp.ModelValues
				raceOne(j.ob, j.file, cfg)
				j.ob.Seconds += tmp.Seconds
				if j.ob.Status == "unknown" && tmp.Status == "failed" && len(tmp.ModelValues) > 0 {
					// no solver decided the full query; the model of the weakening is a
					// candidate input, which counts only if the replay confirms it
					j.ob.Model = "candidate (model of the obligation with quantified hypotheses replaced by instances):\n" + tmp.Model
					j.ob.ModelValues = tmp.ModelValues
				}
				return
			}
			raceOne(j.ob, j.file, cfg)
		}(j)
	}
	wg.Wait()
	// unreachable return sites: a contract may allow a number of them ("deadcode N",
	// dead code present in the original source)
	deadSeen := map[string]int{}
	for _, ob := range e.Obls {
		if ob.Cover && ob.Status == "failed" && ob.DeadGroup != "" {
			deadSeen[ob.DeadGroup]++
			if deadSeen[ob.DeadGroup] <= ob.DeadAllowed {
				ob.Status = "proved"
				ob.Solver = "allowed-deadcode"
			}
		}
	}
}

func raceOne(ob *Obligation, file string, cfg SolverCfg) {
	if ob.Cover && cfg.Timeout > 3*time.Second {
		cfg.Timeout = 3 * time.Second
	}
	ctx, cancel := context.WithCancel(context.Background())
	defer cancel()
	res := make(chan solverRun, len(cfg.Solvers))
	t0 := time.Now()
	started := 0
	start := func(name string) {
		started++
		go func() { res <- runSolver(ctx, name, file, cfg.Timeout) }()
	}
	// staggered start: the first solver gets a head start
	start(cfg.Solvers[0])
	stagger := time.After(2500 * time.Millisecond)
	ob.Outputs = map[string]string{}
	want := "unsat"
	if ob.Cover {
		want = "sat"
	}
	got := 0
	finish := func(r solverRun) bool {
		ob.Outputs[r.name] = fmt.Sprintf("%s (%.2fs)", r.status, r.secs)
		if r.status == "unsat" || r.status == "sat" {
			ob.Solver = r.name
			ob.Seconds = time.Since(t0).Seconds()
			if r.status == want {
				ob.Status = "proved"
			} else {
				ob.Status = "failed"
				if r.status == "sat" {
					ob.Model = r.out
					ob.ModelValues = parseValues(r.out, ob.ModelNames)
				}
			}
			return true
		}
		if r.status == "error" {
			ob.Outputs[r.name] += ": " + firstLines(r.out, 3)
		}
		return false
	}
	for got < len(cfg.Solvers) {
		select {
		case r := <-res:
			got++
			if finish(r) {
				return
			}
			if started < len(cfg.Solvers) {
				for _, n := range cfg.Solvers[started:] {
					start(n)
				}
			}
		case <-stagger:
			for _, n := range cfg.Solvers[started:] {
				start(n)
			}
		}
	}
	ob.Seconds = time.Since(t0).Seconds()
	ob.Status = "unknown"
	if ob.Cover {
		// reachability could not be decided (quantified hypotheses): not a failure
		ob.Status = "inconclusive"
	}
}

func firstLines(s string, n int) string {
	ls := strings.Split(strings.TrimSpace(s), "\n")
	if len(ls) > n {
		ls = ls[:n]
	}
	return strings.Join(ls, " | ")
}

// parseValues reads the (get-value ...) answer: a list of (term value) pairs in
// the order asked. Values are returned as decimal strings (ints, bytes) or
// "true"/"false".
func parseValues(out string, names []string) map[string]string {
	res := map[string]string{}
	k := strings.Index(out, "\n")
	if k < 0 || len(names) == 0 {
		return res
	}
	body := strings.TrimSpace(out[k+1:])
	if !strings.HasPrefix(body, "(") {
		return res
	}
	// split top-level pairs
	depth := 0
	start := -1
	var pairs []string
	for i := 0; i < len(body); i++ {
		switch body[i] {
		case '|':
			i++
			for i < len(body) && body[i] != '|' {
				i++
			}
		case '(':
			depth++
			if depth == 2 {
				start = i
			}
		case ')':
			if depth == 2 && start >= 0 {
				pairs = append(pairs, body[start:i+1])
				start = -1
			}
			depth--
		}
	}
	for i, p := range pairs {
		if i >= len(names) {
			break
		}
		// value = last s-expression of the pair
		p = strings.TrimSpace(p[1 : len(p)-1])
		val := lastSexp(p)
		res[names[i]] = normValue(val)
	}
	return res
}

func lastSexp(p string) string {
	p = strings.TrimSpace(p)
	if strings.HasSuffix(p, ")") {
		depth := 0
		for i := len(p) - 1; i >= 0; i-- {
			switch p[i] {
			case ')':
				depth++
			case '(':
				depth--
				if depth == 0 {
					return p[i:]
				}
			}
		}
	}
	f := strings.Fields(p)
	if len(f) == 0 {
		return ""
	}
	return f[len(f)-1]
}

func normValue(v string) string {
	v = strings.TrimSpace(v)
	if strings.HasPrefix(v, "#x") {
		var n int64
		fmt.Sscanf(v[2:], "%x", &n)
		return fmt.Sprint(n)
	}
	if strings.HasPrefix(v, "#b") {
		var n int64
		for _, c := range v[2:] {
			n = n*2 + int64(c-'0')
		}
		return fmt.Sprint(n)
	}
	if strings.HasPrefix(v, "(-") {
		return "-" + strings.TrimSpace(strings.Trim(v[2:], " )"))
	}
	return v
}
