package eng

import (
	"strings"
	"go/ast"
	"go/token"
	"go/types"

	. "govc/term"
)

// ghostTarget recognises "ghostfield(x)" lvalues.
func (env *specEnv) ghostTarget(ex ast.Expr) (string, *Term, bool) {
	e := env.x.e
	call, ok := ex.(*ast.CallExpr)
	if !ok {
		return "", nil, false
	}
	id, ok := call.Fun.(*ast.Ident)
	if !ok {
		return "", nil, false
	}
	fo, ok := env.info.Uses[id].(*types.Func)
	if !ok || fo.Pkg() == nil {
		return "", nil, false
	}
	sf := e.lookupSpecFn(fo, fo.Pkg().Path()+"."+fo.Name())
	if sf == nil || !sf.ghost || len(call.Args) != 1 {
		return "", nil, false
	}
	a := env.eval(call.Args[0])
	ts, err := e.flattenArg(a, fo.Type().(*types.Signature).Params().At(0).Type(), env.state())
	if err != nil || len(ts) != 1 {
		return "", nil, false
	}
	return "ghost:" + fo.Name(), ts[0], true
}

// wildParts decomposes base[wild_()].f into the base slice, element type and field index path.
func (env *specEnv) wildParts(ex ast.Expr) (SliceV, types.Type, []int, bool) {
	var fields []*ast.SelectorExpr
	cur := ex
	for {
		if se, ok := cur.(*ast.SelectorExpr); ok {
			fields = append([]*ast.SelectorExpr{se}, fields...)
			cur = se.X
			continue
		}
		break
	}
	ie, ok := cur.(*ast.IndexExpr)
	if !ok {
		return SliceV{}, nil, nil, false
	}
	bt := env.typeOf(ie.X)
	sl, ok := bt.Underlying().(*types.Slice)
	base, ok2 := env.eval(ie.X).(SliceV)
	if !ok || !ok2 {
		return SliceV{}, nil, nil, false
	}
	if call, ok := ie.Index.(*ast.CallExpr); ok {
		if id, ok := call.Fun.(*ast.Ident); ok && id.Name == "wildcap_" {
			base.Len = base.Cap
		}
	}
	var idx []int
	for _, f := range fields {
		sel := env.info.Selections[f]
		if sel == nil || len(sel.Index()) != 1 {
			return SliceV{}, nil, nil, false
		}
		idx = append(idx, sel.Index()[0])
	}
	if len(idx) > 1 {
		return SliceV{}, nil, nil, false
	}
	return base, sl.Elem(), idx, true
}

func (x *exec) assumeEntryMonitors(s *State, blk *Block) { x.assumeEntryMonitorsImpl(s, blk) }

func (x *exec) checkExitMonitors(s *State, blk *Block, pos token.Pos, site string) {
	c := x.e.C
	x.checkExitLocked(s, pos, site)
	// every lock taken by the function is released (or was held on entry by contract)
	for k, h := range s.held {
		if h.IsFalse() {
			continue
		}
		if blk != nil {
			skip := false
			for _, cl := range blk.Of("locked") {
				if f := strings.Fields(cl.Text); len(f) > 0 && (f[0] == k || f[0] == "*") {
					skip = true
				}
			}
			if skip {
				continue
			}
		}
		x.oblige("lock", "released@"+site, pos, s, c.Not(h), "lock "+k+" still held at return")
	}
}

