package eng

import (
	"fmt"
	"go/token"
	"go/types"
	"sort"
	"strings"

	. "govc/term"
)

// Monitor reasoning (Owicki-Gries / monitor rule, lock-modular):
//
//	//@ monitor PiecesMu
//	//@   lockkey   <heap key of the mutex field>
//	//@   sig       func(ps *Pieces)          (scope of the clauses: the owner object)
//	//@   protects  <lvalues as in modifies> | bytes
//	//@   invariant [l] I(ps)                 holds whenever the lock is free
//	//@   guarantee [l] G(old, ps)            what one critical section may do (old = state at Lock)
//	//@   rely      [l] R(old, ps)            what other threads may have done between this
//	//@                                       activation's Unlock (old) and its next Lock
//
// Lock():   havoc protected locations; assume I; assume R against the state
//           of this activation's previous Unlock (if any); take the snapshot.
// Unlock(): assert I and G(snapshot, now); remember the state for R.
// Every access to a protected location raises a lockset obligation.

type monInfo struct {
	blk      *Block
	cs       *calleeScope
	protKeys []string // heap key prefixes
	bytes    bool     // byte contents of slices are protected state
}

func (e *Engine) monitorByLock(lockKey string) *monInfo {
	if mi, ok := e.monCache[lockKey]; ok {
		return mi
	}
	var mi *monInfo
	for _, b := range e.P.Monitors {
		if strings.TrimSpace(b.Flags["lockkey"]) != lockKey {
			continue
		}
		cs := e.P.externStub(b.Pkg + "|monitor:" + b.Name)
		if cs == nil {
			continue
		}
		mi = &monInfo{blk: b, cs: cs}
	}
	e.monCache[lockKey] = mi
	return mi
}

func (x *exec) monOwner(p PtrV) (PtrV, bool) {
	// the mutex is a struct field of the owner: address sub:<Owner.mu>(ownerRef)
	if p.Kind == PObj && p.Ref.Op == "app" && strings.HasPrefix(p.Ref.Name, "sub:") {
		return PtrV{Kind: PObj, Ref: p.Ref.Args[0]}, true
	}
	return PtrV{}, false
}

func (x *exec) monEnv(mi *monInfo, owner PtrV, s, old *State) *specEnv {
	ot := mi.cs.sig.Params().At(0).Type()
	owner.T = ot.Underlying().(*types.Pointer).Elem()
	env := x.calleeEnv(s, old, mi.cs, []Value{owner})
	// ghost variables of the activation are visible
	return env
}

func (x *exec) monClauses(mi *monInfo, kind string, owner PtrV, s, old *State, f func(cl *Clause, g *Term)) {
	e := x.e
	for _, cl := range mi.blk.Of(kind) {
		be := e.bind(cl, nil, nil, mi.cs.pos, mi.cs.sig, mi.cs.pkg, e.P.Fset)
		if be.err != nil {
			x.bindFail(cl, be.err)
			continue
		}
		env := x.monEnv(mi, owner, s, old)
		env.info = be.info
		v := env.eval(be.expr)
		g, ok := v.(*Term)
		if !ok || g.Sort != Bool {
			why := "not boolean"
			if pv, isP := v.(PoisonV); isP {
				why = pv.Why
			}
			x.bindFail(cl, fmt.Errorf("monitor clause cannot be evaluated: %s", why))
			continue
		}
		f(cl, g)
	}
}

// protectedKeys evaluates the protects clause once per activation.
func (x *exec) monProtected(mi *monInfo, owner PtrV, s *State) []frameTarget {
	e := x.e
	var out []frameTarget
	for _, cl := range mi.blk.Of("protects") {
		for _, item := range splitTop(cl.Text, ',') {
			item = strings.TrimSpace(item)
			if item == "" {
				continue
			}
			if item == "bytes" {
				mi.bytes = true
				continue
			}
			wild := strings.Contains(item, "[_]") || strings.Contains(item, "[__]")
			sub := &Clause{Kind: "protects", Text: wildText(item), File: cl.File, Line: cl.Line, Label: item + "#prot"}
			be := e.bindAddr(sub, mi.cs)
			if be.err != nil {
				x.bindFail(cl, be.err)
				continue
			}
			env := x.monEnv(mi, owner, s, s)
			env.info = be.info
			out = append(out, x.frameTargets(env, be, wild, cl)...)
		}
	}
	return out
}

func (x *exec) monHavoc(mi *monInfo, owner PtrV, s *State) {
	e := x.e
	c := e.C
	for _, tg := range x.monProtected(mi, owner, s) {
		so := tg.so
		if so == nil {
			var ok bool
			so, ok = e.heapSorts[tg.key]
			if !ok {
				continue
			}
		}
		h := e.heapGet(s, tg.key, so)
		switch {
		case tg.row:
			// rows [off, off+ln) of row tg.ref
			row := c.Select(h, tg.ref)
			nr := c.Fresh("lock.row{"+tg.key+"}", so.Elem)
			k := c.BoundVar("k", Int)
			in := c.And(c.Le(tg.off, k), c.Lt(k, c.Add(tg.off, tg.ln)))
			sel := c.Select(nr, k)
			nr.AddFact(c.Quant("forall", []*Term{k}, c.Implies(c.Not(in), c.Eq(sel, c.Select(row, k))), [][]*Term{{sel}}))
			s.heap[tg.key] = c.Store(h, tg.ref, nr)
		case tg.ref != nil:
			s.heap[tg.key] = c.Store(h, tg.ref, c.Fresh("lock.v{"+tg.key+"}", so.Elem))
		}
	}
	if mi.bytes {
		// byte contents may have been changed by other threads, except in the
		// arrays private to this activation: its parameters' and results' slices
		key := "A:uint8"
		so := Array(Int, Array(Int, BV8))
		h := e.heapGet(s, key, so)
		nh := c.Fresh("lock.bytes{A:uint8}", so)
		priv := x.privateArrays(s)
		for _, a := range priv {
			nh = c.Store(nh, a, c.Select(h, a))
		}
		e.heapSet(s, key, nh)
		// a private array is not the backing array of any protected slice
		for _, tg := range x.monProtected(mi, owner, s) {
			if !strings.HasSuffix(tg.key, "#arr") {
				continue
			}
			so := tg.so
			if so == nil {
				var ok bool
				so, ok = e.heapSorts[tg.key]
				if !ok {
					continue
				}
			}
			hk := e.heapGet(s, tg.key, so)
			for _, a := range priv {
				switch {
				case tg.row:
					k := c.BoundVar("k", Int)
					in := c.And(c.Le(tg.off, k), c.Lt(k, c.Add(tg.off, tg.ln)))
					s.assume(c, c.Quant("forall", []*Term{k}, c.Implies(in, c.Ne(c.Select(c.Select(hk, tg.ref), k), a)), nil))
				case tg.ref != nil:
					s.assume(c, c.Ne(c.Select(hk, tg.ref), a))
				}
			}
		}
	}
}

// privateArrays: backing arrays of the byte slices passed as parameters to the
// function under verification, and of arrays it allocated itself.
func (x *exec) privateArrays(s *State) []*Term {
	t := x.topExec()
	var out []*Term
	seen := map[*Term]bool{}
	for i, p := range t.fn.Params {
		if sl, ok := p.Type().Underlying().(*types.Slice); ok && repOf(sl.Elem()) == RByte {
			if v, ok := t.args[i].(SliceV); ok && !seen[v.Arr] {
				seen[v.Arr] = true
				out = append(out, v.Arr)
			}
		}
	}
	// array-typed local variables (e.g. a digest) are private as well
	for _, a := range x.e.localArrays {
		if !seen[a] {
			seen[a] = true
			out = append(out, a)
		}
	}
	return out
}

func (x *exec) monitorAcquireImpl(s *State, p PtrV, k string, write bool, pos token.Pos) {
	e := x.e
	c := e.C
	mi := e.monitorByLock(k)
	if mi == nil {
		return
	}
	owner, ok := x.monOwner(p)
	if !ok {
		return
	}
	if s.owners == nil {
		s.owners = map[string]PtrV{}
	}
	s.owners[k] = owner
	x.monHavoc(mi, owner, s)
	if e.Trace && s.pc.IsFalse() {
		fmt.Printf("  pc false after havoc at lock %s\n", k)
	}
	x.monClauses(mi, "invariant", owner, s, s, func(cl *Clause, g *Term) {
		s.assume(c, g)
		if e.Trace && s.pc.IsFalse() {
			fmt.Printf("  pc false after assuming invariant %s\n", cl.Label)
		}
	})
	if prev, ok := s.snap["unlock:"+k]; ok && prev != nil {
		x.monClauses(mi, "rely", owner, s, prev, func(cl *Clause, g *Term) { s.assume(c, g) })
	}
	s.snap["lock:"+k] = s.clone()
	s.snap["lock:"+k].snap = map[string]*State{}
}

func (x *exec) monitorReleaseImpl(s *State, p PtrV, k string, write bool, pos token.Pos) {
	e := x.e
	mi := e.monitorByLock(k)
	if mi == nil {
		return
	}
	owner, ok := x.monOwner(p)
	if !ok {
		return
	}
	if write {
		// under the read lock no protected location can have been written
		// (lockset obligations), so I and G hold as they did at RLock
		x.monCheckRelease(mi, owner, s, k, pos, "unlock")
	}
	u := s.clone()
	u.snap = map[string]*State{}
	s.snap["unlock:"+k] = u
}

func (x *exec) monCheckRelease(mi *monInfo, owner PtrV, s *State, k string, pos token.Pos, what string) {
	x.monClauses(mi, "invariant", owner, s, s, func(cl *Clause, g *Term) {
		x.oblige("minv", cl.Label+"@"+what, pos, s, g, cl.Text)
	})
	if snap, ok := s.snap["lock:"+k]; ok {
		if snap == nil {
			x.oblige("guarantee", "snapshot@"+what, pos, s, x.e.C.False(), "paths with different lock acquisition points merge inside the critical section (outside the handled subset)")
			return
		}
		x.monClauses(mi, "guarantee", owner, s, snap, func(cl *Clause, g *Term) {
			x.oblige("guarantee", cl.Label+"@"+what, pos, s, g, cl.Text)
		})
	}
}

// monitorAccessImpl: lockset obligation for protected locations.
func (x *exec) monitorAccessImpl(s *State, p PtrV, write bool, pos token.Pos) {
	e := x.e
	c := e.C
	if len(e.P.Monitors) == 0 {
		return
	}
	key := ""
	switch p.Kind {
	case PLeaf:
		key = p.Key
	case PElem:
		key = p.elemKeyOf()
	case PElemObj:
		key = p.Key
	default:
		return
	}
	for _, b := range e.P.Monitors {
		lk := strings.TrimSpace(b.Flags["lockkey"])
		hit := false
		for _, cl := range b.Of("lockset") {
			for _, pre := range strings.Fields(cl.Text) {
				if key == pre || strings.HasPrefix(key, pre+"#") || strings.HasPrefix(key, pre+".") {
					hit = true
				}
			}
		}
		if !hit {
			continue
		}
		held, ok := s.held[lk]
		if !ok {
			held = c.False()
		}
		if !write {
			if r, ok := s.held[lk+"#r"]; ok {
				held = c.Or(held, r)
			}
		}
		what := "read"
		if write {
			what = "write"
		}
		x.oblige("lockset", what+":"+shortHeapKey(key), pos, s, held, what+" of a location protected by "+shortHeapKey(lk)+" without holding it")
	}
}

func (x *exec) monitorHeldForImpl(s *State, p PtrV) bool {
	e := x.e
	key := ""
	switch p.Kind {
	case PLeaf:
		key = p.Key
	case PElem:
		key = p.elemKeyOf()
	default:
		return false
	}
	for _, b := range e.P.Monitors {
		lk := strings.TrimSpace(b.Flags["lockkey"])
		for _, cl := range b.Of("lockset") {
			for _, pre := range strings.Fields(cl.Text) {
				if key == pre || strings.HasPrefix(key, pre+"#") {
					if h, ok := s.held[lk]; ok && h.IsTrue() {
						return true
					}
					if h, ok := s.held[lk+"#r"]; ok && h.IsTrue() {
						return true
					}
				}
			}
		}
	}
	return false
}

// enterLocked: a function whose contract says "locked <lockkey> <owner expr>"
// is verified with the lock held on entry: the monitor invariant is assumed,
// the snapshot for the guarantee is the entry state, and at every return the
// lock must still be held and the invariant and guarantee hold.
func (x *exec) assumeEntryMonitorsImpl(s *State, blk *Block) {
	e := x.e
	c := e.C
	for _, cl := range blk.Of("locked") {
		f := strings.Fields(cl.Text)
		if len(f) < 2 {
			continue
		}
		k := f[0]
		mi := e.monitorByLock(k)
		if mi == nil {
			x.bindFail(cl, fmt.Errorf("no monitor declared for %s", k))
			continue
		}
		sub := &Clause{Kind: "locked", Text: strings.Join(f[1:], " "), File: cl.File, Line: cl.Line, Label: "owner"}
		ov, ok := x.evalClause(sub, s, token.NoPos).(PtrV)
		if !ok {
			x.bindFail(cl, fmt.Errorf("owner expression is not a pointer"))
			continue
		}
		s.held[k] = c.True()
		x.monClauses(mi, "invariant", ov, s, s, func(cl *Clause, g *Term) { s.assume(c, g) })
		s.snap["lock:"+k] = s.clone()
		s.snap["lock:"+k].snap = map[string]*State{}
		x.lockedOwners = append(x.lockedOwners, lockedOwner{k, mi, ov})
	}
}

type lockedOwner struct {
	key   string
	mi    *monInfo
	owner PtrV
}

func (x *exec) checkExitLocked(s *State, pos token.Pos, site string) {
	for _, lo := range x.lockedOwners {
		h, ok := s.held[lo.key]
		if !ok {
			h = x.e.C.False()
		}
		x.oblige("lock", "held@"+site, pos, s, h, "function called locked must return locked")
		x.monCheckRelease(lo.mi, lo.owner, s, lo.key, pos, site)
	}
}

// afterRelockingCall: the callee (contract flag "relocks <lockkey> <owner>")
// may have released and re-acquired the lock: before the call the caller's
// critical section ends (invariant and guarantee asserted), after it the
// protected state is whatever other threads left, constrained by I and R.
func (x *exec) beforeRelockingCall(s *State, blk *Block, cs *calleeScope, args []Value, pos token.Pos) (mi *monInfo, owner PtrV, k string, ok bool) {
	e := x.e
	rl, has := blk.Flags["relocks"]
	if !has {
		return nil, PtrV{}, "", false
	}
	f := strings.Fields(rl)
	if len(f) < 2 {
		return nil, PtrV{}, "", false
	}
	k = f[0]
	mi = e.monitorByLock(k)
	if mi == nil {
		return nil, PtrV{}, "", false
	}
	sub := &Clause{Kind: "relocks", Text: strings.Join(f[1:], " "), File: blk.File, Line: blk.Line, Label: "relock-owner"}
	be := e.bind(sub, nil, nil, cs.pos, cs.sig, cs.pkg, e.P.Fset)
	if be.err != nil {
		return nil, PtrV{}, "", false
	}
	env := x.calleeEnv(s, s, cs, args)
	env.info = be.info
	ov, isP := env.eval(be.expr).(PtrV)
	if !isP {
		return nil, PtrV{}, "", false
	}
	x.monCheckRelease(mi, ov, s, k, pos, "call")
	u := s.clone()
	u.snap = map[string]*State{}
	s.snap["unlock:"+k] = u
	return mi, ov, k, true
}

func (x *exec) afterRelockingCall(s *State, mi *monInfo, owner PtrV, k string) {
	c := x.e.C
	x.monHavoc(mi, owner, s)
	x.monClauses(mi, "invariant", owner, s, s, func(cl *Clause, g *Term) { s.assume(c, g) })
	if prev, ok := s.snap["unlock:"+k]; ok && prev != nil {
		x.monClauses(mi, "rely", owner, s, prev, func(cl *Clause, g *Term) { s.assume(c, g) })
	}
	s.snap["lock:"+k] = s.clone()
	s.snap["lock:"+k].snap = map[string]*State{}
}

// monLoopHead: on every arrival at a loop head inside a critical section the
// guarantee is asserted against the current baseline ...
func (x *exec) monLoopHead(li *loopInfo, s *State, what string) {
	e := x.e
	if e.dry > 0 {
		return
	}
	for _, k := range sortedStateKeys(s.held) {
		if h := s.held[k]; h.IsFalse() || strings.HasSuffix(k, "#r") {
			continue
		}
		mi := e.monitorByLock(k)
		if mi == nil {
			continue
		}
		owner, ok := x.ownerOfHeld(s, k)
		if !ok {
			continue
		}
		if snap, ok := s.snap["lock:"+k]; ok && snap != nil {
			x.monClauses(mi, "guarantee", owner, s, snap, func(cl *Clause, g *Term) {
				x.oblige("guarantee", fmt.Sprintf("%s@loop%d.%s", cl.Label, li.ordinal, what), li.pos, s, g, cl.Text)
			})
		}
	}
}

// ... and monRebase makes the (havocked) state at the loop head the new
// baseline: the critical section's guarantee is thus checked piecewise, which
// is sound for guarantees closed under composition (stated in DESIGN.md).
func (x *exec) monRebase(hs *State) {
	for _, k := range sortedStateKeys(hs.held) {
		if h := hs.held[k]; h.IsFalse() || strings.HasSuffix(k, "#r") {
			continue
		}
		if _, ok := hs.snap["lock:"+k]; ok {
			b := hs.clone()
			b.snap = map[string]*State{}
			hs.snap["lock:"+k] = b
		}
	}
}

// ownerOfHeld finds the owner object of a held monitor lock.
func (x *exec) ownerOfHeld(s *State, k string) (PtrV, bool) {
	t := x.topExec()
	for _, lo := range t.lockedOwners {
		if lo.key == k {
			return lo.owner, true
		}
	}
	if o, ok := s.owners[k]; ok {
		return o, true
	}
	return PtrV{}, false
}

// bytesLockset: reading or writing the byte contents of a backing array that
// is (or may be) a buffer protected by a monitor whose "protects" list says
// "bytes" requires that monitor's lock. The obligation is raised for copies
// performed by the function itself (copy/append), for every monitor it has
// locked in this activation (its owner is then known):
//     lock held  \/  the array is not the backing array of any protected slice.
func (x *exec) bytesLockset(s *State, arr *Term, write bool, pos token.Pos) {
	e := x.e
	c := e.C
	if e.dry > 0 || len(e.P.Monitors) == 0 || e.isFreshTerm(arr) {
		return
	}
	for _, k := range sortedOwnerKeys(s.owners) {
		mi := e.monitorByLock(k)
		if mi == nil {
			continue
		}
		owner := s.owners[k]
		targets := x.monProtected(mi, owner, s)
		if !mi.bytes {
			continue
		}
		held, ok := s.held[k]
		if !ok {
			held = c.False()
		}
		if !write {
			if r, ok := s.held[k+"#r"]; ok {
				held = c.Or(held, r)
			}
		}
		if held.IsTrue() {
			continue
		}
		var notProt []*Term
		for _, tg := range targets {
			if !strings.HasSuffix(tg.key, "#arr") || tg.so == nil {
				continue
			}
			hk := e.heapGet(s, tg.key, tg.so)
			switch {
			case tg.row:
				kv := c.BoundVar("k", Int)
				in := c.And(c.Le(tg.off, kv), c.Lt(kv, c.Add(tg.off, tg.ln)))
				notProt = append(notProt, c.Quant("forall", []*Term{kv}, c.Implies(in, c.Ne(c.Select(c.Select(hk, tg.ref), kv), arr)), nil))
			case tg.ref != nil:
				notProt = append(notProt, c.Ne(c.Select(hk, tg.ref), arr))
			}
		}
		what := "read"
		if write {
			what = "write"
		}
		x.oblige("lockset", what+":bytes", pos, s, c.Or(held, c.And(notProt...)), what+" of the contents of a buffer protected by "+shortHeapKey(k)+" without holding it")
	}
}

func sortedOwnerKeys(m map[string]PtrV) []string {
	var ks []string
	for k := range m {
		ks = append(ks, k)
	}
	sort.Strings(ks)
	return ks
}
