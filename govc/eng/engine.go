package eng

import (
	"fmt"
	"time"
	"go/token"
	"go/types"
	"sort"
	"strings"

	"golang.org/x/tools/go/ssa"

	. "govc/term"
)

type Obligation struct {
	Name   string
	Kind   string // pre post inv-init inv-pres bounds nil div panic assert frame cover vacuous bind subset decreases lockset guarantee minv
	Label  string
	Func   string
	Pos    token.Pos
	PosStr string
	Props  []string
	Hyp    *Term
	Goal   *Term
	Clause string
	Cover  bool // expected satisfiable (vacuity guard): failure = unsat
	DeadGroup   string // cover obligations of one function: DeadAllowed of them may be unreachable
	DeadAllowed int
	Err    string // bind/subset errors: failed without a solver
	// result
	Status   string // proved failed unknown error
	Solver   string
	Seconds  float64
	Model    string
	Outputs  map[string]string
	QuerySz  int
	Inlined  string // name of inlined callee the obligation originates from
	Hints      []*Term // instantiation hints: integer parameters of the function
	ModelTerms []*Term
	ModelNames []string
	ReplayTemplate string
	ModelValues map[string]string
	Candidate string // model of the quantifier-free weakening (only a candidate input)
	CandidateValues map[string]string
}

type Engine struct {
	havocSeq int
	CheckProp string // property being checked (govc check): selects labelled focus clauses
	P          *Program
	C          *Ctx
	Obls       []*Obligation
	heapSorts  map[string]*Sort
	fnIDs      map[string]int
	strLits    map[string]*Term
	strLitVals map[*Term]string
	elemAx     bool
	subAx      map[string]bool
	typeTags   map[string]int
	tagTypes   map[int]types.Type
	cellN      int
	dry        int // >0: obligations suppressed
	specMath   int // >0: evaluating a specification expression
	// bookkeeping for evidence
	Unverified map[string]bool // callees treated by default extern rule
	ExternsUsed map[string]bool
	Inlines    map[string]bool
	Assumed    map[string]bool // 'assume' clauses used
	curFunc    string
	curProps   []string
	oblSeq     map[string]int
	specCache  map[*Clause]*boundExpr
	specFnCache map[string]*specFn
	MaxInline  int
	Trace      bool
	cur        *exec // function activation being executed
	freshRefs  map[*Term]bool
	monCache   map[string]*monInfo
	steps      int
	funcStart  time.Time
	funcTermBase int
	subNames   map[string]string // sanitised sub-object function name -> heap key of its field
	instHints  []*Term
	finals     map[string]bool
	localArrays []*Term // backing arrays of array-typed local variables of the function under verification
}

func NewEngine(p *Program) *Engine {
	return &Engine{P: p, C: NewCtx(), heapSorts: map[string]*Sort{}, fnIDs: map[string]int{}, strLits: map[string]*Term{},
		strLitVals: map[*Term]string{}, subAx: map[string]bool{}, typeTags: map[string]int{}, tagTypes: map[int]types.Type{},
		Unverified: map[string]bool{}, ExternsUsed: map[string]bool{}, Inlines: map[string]bool{}, Assumed: map[string]bool{}, oblSeq: map[string]int{},
		specCache: map[*Clause]*boundExpr{}, specFnCache: map[string]*specFn{}, MaxInline: 4, freshRefs: map[*Term]bool{}, monCache: map[string]*monInfo{}, subNames: map[string]string{}}
}

func (e *Engine) typeTag(t types.Type) *Term {
	k := typeKey(t)
	id, ok := e.typeTags[k]
	if !ok {
		id = len(e.typeTags) + 1
		e.typeTags[k] = id
		e.tagTypes[id] = t
	}
	return e.C.IntC(int64(id))
}

// subsetErr aborts execution of the current function.
type subsetErr struct{ msg string }

func (e *Engine) unsupported(format string, args ...interface{}) {
	panic(subsetErr{fmt.Sprintf(format, args...)})
}

// ---- frames ----

type exec struct {
	e        *Engine
	fn       *ssa.Function
	regs     map[ssa.Value]Value
	cellOf   map[*ssa.Alloc]*Cell
	args     []Value
	entry    *State // state at function entry (after requires) for old()
	depth    int
	contract *Block
	top      bool
	parent   *exec
	site     string // call-site suffix for obligation names when inlined
	rets     []retRec
	blockOut map[int]*State
	edge     map[[2]int]*Term // extra condition on edge (beyond pc)
	loops    map[int]*loopInfo // by head block index
	freeVars []Value
	results  []*Cell // named result cells
	lets     map[string]Value
	ghostEnv map[types.Object]Value
	frame    *frameInfo
	pos      token.Pos // position of the instruction being executed
	lockedOwners []lockedOwner
	ghostCells map[string]*Cell
	shared   []*Cell // locals captured by a spawned goroutine: arbitrary after every later call
}

type retRec struct {
	st   *State
	vals []Value
	pos  token.Pos
	idx  int
}

type loopInfo struct {
	head    int
	body    map[int]bool
	spec    *LoopSpec
	ordinal int
	// per-activation
	variant []*Term // decreases value at head
	snap    *State
	pos     token.Pos
	frameKeys []string
}

func (e *Engine) newCell(name string, t types.Type) *Cell {
	e.cellN++
	return &Cell{Name: name, T: t, ID: e.cellN}
}

// obligation emission
func (x *exec) oblige(kind, label string, pos token.Pos, s *State, goal *Term, clause string) *Obligation {
	e := x.e
	if e.dry > 0 {
		return nil
	}
	if goal.IsTrue() && kind != "cover" {
		// still count trivial obligations: they are discharged by simplification
	}
	top := x
	var chain []string
	for top.parent != nil {
		chain = append(chain, shortName(top.fn))
		top = top.parent
	}
	base := fmt.Sprintf("%s:%s", shortFuncKey(top.fn), kind)
	if label != "" {
		base += ":" + label
	}
	if len(chain) > 0 {
		base += "@in:" + strings.Join(chain, "<")
	}
	e.oblSeq[base]++
	name := base
	if n := e.oblSeq[base]; n > 1 || label == "" {
		name = fmt.Sprintf("%s#%d", base, n)
	}
	ob := &Obligation{Name: name, Kind: kind, Label: label, Func: FuncKey(top.fn), Pos: pos, PosStr: e.P.Pos(pos), Props: e.curProps, Hyp: s.pc, Goal: goal, Clause: clause}
	if len(chain) > 0 {
		ob.Inlined = chain[0]
	}
	e.Obls = append(e.Obls, ob)
	return ob
}

func shortName(fn *ssa.Function) string {
	k := FuncKey(fn)
	if i := strings.LastIndex(k, "/"); i >= 0 {
		k = k[i+1:]
	}
	return k
}

func shortFuncKey(fn *ssa.Function) string {
	k := FuncKey(fn)
	k = strings.TrimPrefix(k, ModPath+"/")
	return k
}

// assume adds a fact to the path condition.
func (s *State) assume(c *Ctx, t *Term) {
	s.pc = c.And(s.pc, t)
}

// ---- CFG analysis ----

func (x *exec) analyzeLoops() {
	fn := x.fn
	x.loops = map[int]*loopInfo{}
	for _, b := range fn.Blocks {
		for _, s := range b.Succs {
			if s.Dominates(b) {
				// back edge b -> s
				li := x.loops[s.Index]
				if li == nil {
					li = &loopInfo{head: s.Index, body: map[int]bool{s.Index: true}}
					x.loops[s.Index] = li
				}
				// natural loop: nodes reaching b without passing s
				stack := []*ssa.BasicBlock{b}
				for len(stack) > 0 {
					n := stack[len(stack)-1]
					stack = stack[:len(stack)-1]
					if li.body[n.Index] {
						continue
					}
					li.body[n.Index] = true
					for _, p := range n.Preds {
						stack = append(stack, p)
					}
				}
			}
		}
	}
	// ordinals: by source position of the loop statement containing the head
	type hp struct {
		head int
		pos  token.Pos
	}
	var hs []hp
	for h, li := range x.loops {
		pos := token.NoPos
		for bi := range li.body {
			for _, in := range fn.Blocks[bi].Instrs {
				if p := in.Pos(); p.IsValid() && (pos == token.NoPos || p < pos) {
					pos = p
				}
			}
		}
		li.pos = pos
		hs = append(hs, hp{h, pos})
	}
	// Map to AST loops: ordinal = index of innermost AST loop (in source order) containing all instruction positions.
	astLoops := loopStmts(fn)
	for _, h := range hs {
		li := x.loops[h.head]
		lo, hi := token.Pos(1<<62), token.NoPos
		for bi := range li.body {
			for _, in := range fn.Blocks[bi].Instrs {
				if p := in.Pos(); p.IsValid() {
					if p < lo {
						lo = p
					}
					if p > hi {
						hi = p
					}
				}
			}
		}
		best := -1
		for i, al := range astLoops {
			if al.Pos() <= lo && hi <= al.End() {
				if best < 0 || (astLoops[best].Pos() <= al.Pos() && al.End() <= astLoops[best].End()) {
					best = i
				}
			}
		}
		li.ordinal = best + 1
		if best >= 0 {
			li.pos = astLoops[best].Pos()
		}
		if x.contract != nil && best >= 0 {
			li.spec = x.contract.Loops[best+1]
		}
	}
}

func (x *exec) rpo() []*ssa.BasicBlock {
	fn := x.fn
	seen := map[int]bool{}
	var post []*ssa.BasicBlock
	var dfs func(b *ssa.BasicBlock)
	dfs = func(b *ssa.BasicBlock) {
		seen[b.Index] = true
		for _, s := range b.Succs {
			if s.Dominates(b) { // back edge
				continue
			}
			if !seen[s.Index] {
				dfs(s)
			}
		}
		post = append(post, b)
	}
	dfs(fn.Blocks[0])
	for i, j := 0, len(post)-1; i < j; i, j = i+1, j-1 {
		post[i], post[j] = post[j], post[i]
	}
	return post
}

// selector simplifies "pa" as a discriminator between pa and pb by dropping common conjuncts.
func (e *Engine) selector(pa, pb *Term) *Term {
	ca, cb := conjuncts(pa), conjuncts(pb)
	inb := map[*Term]bool{}
	for _, t := range cb {
		inb[t] = true
	}
	var rest []*Term
	for _, t := range ca {
		if !inb[t] {
			rest = append(rest, t)
		}
	}
	if len(rest) == 0 {
		return pa
	}
	// a branch decision d with d in pa and not(d) in pb selects pa within
	// pa \/ pb on its own: prefer it (smallest first) to the whole difference,
	// which also contains the facts assumed along pa (callee postconditions,
	// possibly quantified)
	var best *Term
	for _, t := range rest {
		if inb[e.C.Not(t)] && !t.HasQuant() {
			if best == nil || Size(t) < Size(best) {
				best = t
			}
		}
	}
	if best != nil {
		return best
	}
	return e.C.And(rest...)
}

// orFactored is pa \/ pb with the conjuncts common to both factored out, so
// that path conditions stay conjunctions with a shared prefix (quantified
// assumptions remain top-level conjuncts, selectors stay small).
func (e *Engine) orFactored(pa, pb *Term) *Term {
	ca, cb := conjuncts(pa), conjuncts(pb)
	inb := map[*Term]bool{}
	for _, t := range cb {
		inb[t] = true
	}
	var common, ra, rb []*Term
	ina := map[*Term]bool{}
	for _, t := range ca {
		if inb[t] {
			common = append(common, t)
			ina[t] = true
		} else {
			ra = append(ra, t)
		}
	}
	for _, t := range cb {
		if !ina[t] {
			rb = append(rb, t)
		}
	}
	c := e.C
	return c.And(append(common, c.Or(c.And(ra...), c.And(rb...)))...)
}

func conjuncts(t *Term) []*Term {
	if t.Op == "and" {
		return t.Args
	}
	if t.IsTrue() {
		return nil
	}
	return []*Term{t}
}

func sortedInts(m map[int]bool) []int {
	var out []int
	for k := range m {
		out = append(out, k)
	}
	sort.Ints(out)
	return out
}
