package eng

import (
	"fmt"
	"os"
	"time"
	"sort"
	"go/constant"
	"go/token"
	"go/types"
	"math/big"

	"golang.org/x/tools/go/ssa"

	. "govc/term"
)

// val returns the symbolic value of an SSA value.
func (x *exec) val(v ssa.Value, s *State) Value {
	e := x.e
	switch u := v.(type) {
	case *ssa.Const:
		return e.constVal(u.Value, u.Type())
	case *ssa.Global:
		return e.globalPtr(u)
	case *ssa.Function:
		return FuncV{Fn: u}
	case *ssa.Parameter:
		for i, p := range x.fn.Params {
			if p == u {
				return x.args[i]
			}
		}
	case *ssa.FreeVar:
		for i, p := range x.fn.FreeVars {
			if p == u {
				return x.freeVars[i]
			}
		}
	case *ssa.Builtin:
		return FuncV{Opaque: e.C.IntC(-1)}
	}
	if r, ok := x.regs[v]; ok {
		return r
	}
	return PoisonV{"undefined register " + v.Name()}
}

func (e *Engine) constVal(cv constant.Value, t types.Type) Value {
	c := e.C
	if cv == nil {
		return e.zero(t)
	}
	switch repOf(t) {
	case RBool:
		return c.BoolC(constant.BoolVal(cv))
	case RInt:
		if cv.Kind() == constant.Float {
			cv = constant.ToInt(cv)
		}
		bi, ok := new(big.Int).SetString(cv.ExactString(), 10)
		if !ok {
			return PoisonV{"int const " + cv.ExactString()}
		}
		return c.IntB(bi)
	case RByte:
		i, _ := constant.Int64Val(constant.ToInt(cv))
		return c.BVC(i)
	case RStr:
		return e.strLit(constant.StringVal(cv))
	case RFlt:
		return c.App("flt.const", Flt, e.strLit(cv.ExactString()))
	case RIface:
		// untyped nil or constant converted to interface: handled by MakeInterface
		return e.zero(t)
	}
	return e.zero(t)
}

func (e *Engine) globalRef(name string) *Term {
	k := "g:" + name
	id, ok := e.fnIDs[k]
	if !ok {
		id = len(e.fnIDs) + 1
		e.fnIDs[k] = id
	}
	return e.C.IntC(int64(id))
}

func (e *Engine) globalPtr(g *ssa.Global) PtrV {
	t := g.Type().(*types.Pointer).Elem()
	name := g.Name()
	if g.Pkg != nil {
		name = g.Pkg.Pkg.Path() + "." + g.Name()
	}
	r := e.globalRef(name)
	if structOf(t) != nil {
		return PtrV{Kind: PObj, Ref: r, T: t}
	}
	if _, ok := t.Underlying().(*types.Array); ok {
		return PtrV{Kind: PArr, Arr: r, T: t}
	}
	return PtrV{Kind: PLeaf, Key: "global:" + name, Ref: e.C.IntC(0), T: t}
}

// ---- region execution ----

// isExitBlock: the block only runs deferred calls and returns.
func isExitBlock(b *ssa.BasicBlock) bool {
	if len(b.Instrs) == 0 {
		return false
	}
	if _, ok := b.Instrs[len(b.Instrs)-1].(*ssa.Return); !ok {
		return false
	}
	for _, in := range b.Instrs[:len(b.Instrs)-1] {
		switch in.(type) {
		case *ssa.RunDefers, *ssa.UnOp, *ssa.DebugRef, *ssa.Store, *ssa.MakeInterface, *ssa.ChangeInterface:
		default:
			return false
		}
	}
	return true
}

type regionCB struct {
	onBack func(from int, s *State) // edge to the region's start block
	onExit func(from, to int, s *State)
}

// runRegion executes the blocks of region (nil = whole function) starting at
// block start in state st.
func (x *exec) runRegion(region map[int]bool, start int, st *State, cb regionCB, startIsLoopHead bool) {
	fn := x.fn
	contrib := map[int][]*State{}
	contrib[start] = []*State{st}
	for _, b := range x.rpo() {
		if region != nil && !region[b.Index] {
			continue
		}
		ins := contrib[b.Index]
		if len(ins) == 0 {
			continue
		}
		delete(contrib, b.Index)
		if os.Getenv("GOVC_DBGSPLIT") != "" && len(ins) > 3 {
			fmt.Printf("block %d %s: %d preds, exit=%v top=%v\n", b.Index, b.Comment, len(ins), isExitBlock(b), x.top)
			for _, in := range b.Instrs {
				fmt.Printf("   %T %s\n", in, in)
			}
		}
		if len(ins) > 1 && x.top && x.contract != nil && x.contract.Has("splitreturn") && isExitBlock(b) && x.loops[b.Index] == nil {
			// "splitreturn": the paths that reach a common return block are NOT
			// merged: each gets its own (much smaller) postcondition obligations
			for _, one := range ins {
				if one.pc.IsFalse() {
					continue
				}
				cur := one.clone()
				for _, in := range b.Instrs {
					if !x.step(cur, in) || cur.pc.IsFalse() {
						break
					}
				}
			}
			continue
		}
		cur := ins[0]
		for _, o := range ins[1:] {
			cur = x.e.mergeStates(nil, cur, nil, o)
		}
		if cur.pc.IsFalse() {
			continue
		}
		if li := x.loops[b.Index]; li != nil && !(b.Index == start && startIsLoopHead) {
			cur = x.enterLoop(li, cur)
			if cur == nil || cur.pc.IsFalse() {
				continue
			}
		} else {
			cur = cur.clone()
		}
		alive := true
		for _, in := range b.Instrs {
			if !x.step(cur, in) {
				alive = false
				break
			}
			if cur.pc.IsFalse() {
				alive = false
				break
			}
		}
		if !alive {
			continue
		}
		// terminator
		last := b.Instrs[len(b.Instrs)-1]
		send := func(to *ssa.BasicBlock, s *State) {
			if s.pc.IsFalse() {
				return
			}
			if to.Dominates(b) { // back edge
				if to.Index == start && startIsLoopHead {
					if cb.onBack != nil {
						cb.onBack(b.Index, s)
					}
					return
				}
				x.backEdge(x.loops[to.Index], s)
				return
			}
			if region != nil && !region[to.Index] {
				if cb.onExit != nil {
					cb.onExit(b.Index, to.Index, s)
				}
				return
			}
			contrib[to.Index] = append(contrib[to.Index], s)
		}
		switch t := last.(type) {
		case *ssa.If:
			cv, ok := x.val(t.Cond, cur).(*Term)
			if !ok {
				x.e.unsupported("non-boolean branch condition at %s", x.e.P.Pos(t.Pos()))
			}
			s1 := cur.clone()
			s1.assume(x.e.C, cv)
			s2 := cur
			s2.assume(x.e.C, x.e.C.Not(cv))
			send(b.Succs[0], s1)
			send(b.Succs[1], s2)
		case *ssa.Jump:
			send(b.Succs[0], cur)
		case *ssa.Return, *ssa.Panic:
			// handled in step
		default:
			if len(b.Succs) == 1 {
				send(b.Succs[0], cur)
			}
		}
	}
	_ = fn
}

// valueEq reports structural identity of two symbolic values.
func valueEq(a, b Value) bool {
	switch x := a.(type) {
	case *Term:
		y, ok := b.(*Term)
		return ok && x == y
	case SliceV:
		y, ok := b.(SliceV)
		return ok && x == y
	case IfaceV:
		y, ok := b.(IfaceV)
		if !ok || x.Tag != y.Tag || x.Box != y.Box || (x.Ptr == nil) != (y.Ptr == nil) {
			return false
		}
		return x.Ptr == nil || valueEq(*x.Ptr, *y.Ptr)
	case StructV:
		y, ok := b.(StructV)
		if !ok || len(x.F) != len(y.F) {
			return false
		}
		for i := range x.F {
			if !valueEq(x.F[i], y.F[i]) {
				return false
			}
		}
		return true
	case ArrayV:
		y, ok := b.(ArrayV)
		if !ok || x.A != y.A || len(x.Elems) != len(y.Elems) {
			return false
		}
		for i := range x.Elems {
			if !valueEq(x.Elems[i], y.Elems[i]) {
				return false
			}
		}
		return true
	case TupleV:
		y, ok := b.(TupleV)
		if !ok || len(x) != len(y) {
			return false
		}
		for i := range x {
			if !valueEq(x[i], y[i]) {
				return false
			}
		}
		return true
	case PtrV:
		y, ok := b.(PtrV)
		if !ok || x.Kind != y.Kind || x.Ref != y.Ref || x.Arr != y.Arr || x.Idx != y.Idx || x.Cell != y.Cell || x.Key != y.Key || len(x.Path) != len(y.Path) {
			return false
		}
		for i := range x.Path {
			if x.Path[i] != y.Path[i] {
				return false
			}
		}
		return true
	case FuncV:
		y, ok := b.(FuncV)
		if !ok || x.Fn != y.Fn || x.Opaque != y.Opaque || len(x.Bind) != len(y.Bind) {
			return false
		}
		for i := range x.Bind {
			if !valueEq(x.Bind[i], y.Bind[i]) {
				return false
			}
		}
		return true
	case PoisonV:
		_, ok := b.(PoisonV)
		return ok
	case nil:
		return b == nil
	}
	return false
}

// ---- loops ----

type modSet struct {
	cells map[*Cell]bool
	heap  map[string][]*Term    // rows havocked entirely
	heap2 map[string][][2]*Term // (row, index) pairs of two-level heaps
	whole map[string]bool
	next  bool
	alloc bool
	hv    []havocRec // wholesale havocs performed by the body (by prefix)
}

func newModSet() *modSet {
	return &modSet{cells: map[*Cell]bool{}, heap: map[string][]*Term{}, heap2: map[string][][2]*Term{}, whole: map[string]bool{}}
}

func (m *modSet) size() int {
	n := len(m.cells) + len(m.whole) + len(m.hv)
	for _, r := range m.heap {
		n += len(r)
	}
	for _, r := range m.heap2 {
		n += len(r)
	}
	if m.next {
		n++
	}
	if m.alloc {
		n++
	}
	return n
}

// rowsBetween finds the first-level indices stored between base and t.
func rowsBetween(t, base *Term, out *[]*Term, depth int) bool {
	for {
		if t == base {
			return true
		}
		if depth > 64 {
			return false
		}
		switch t.Op {
		case "store":
			*out = append(*out, t.Args[1])
			t = t.Args[0]
		case "ite":
			return rowsBetween(t.Args[1], base, out, depth+1) && rowsBetween(t.Args[2], base, out, depth+1)
		default:
			return false
		}
	}
}

func mentions(t *Term, set map[*Term]bool, memo map[*Term]bool) bool {
	if set[t] {
		return true
	}
	if len(t.Args) == 0 {
		return false
	}
	if r, ok := memo[t]; ok {
		return r
	}
	memo[t] = false
	for _, a := range t.Args {
		if mentions(a, set, memo) {
			memo[t] = true
			return true
		}
	}
	return false
}

// havoc returns a copy of s with m havocked; fresh constants are recorded in consts.
func (x *exec) havoc(s *State, m *modSet, consts map[*Term]bool, tag string) *State {
	e := x.e
	c := e.C
	n := s.clone()
	for _, h := range m.hv {
		e.addHavoc(n, h.prefix, h.all)
	}
	note := func(v Value) {
		var walk func(v Value)
		walk = func(v Value) {
			switch u := v.(type) {
			case *Term:
				consts[u] = true
			case SliceV:
				consts[u.Arr], consts[u.Off], consts[u.Len], consts[u.Cap] = true, true, true, true
			case IfaceV:
				consts[u.Tag], consts[u.Box] = true, true
			case StructV:
				for _, f := range u.F {
					walk(f)
				}
			case ArrayV:
				if u.A != nil {
					consts[u.A] = true
				}
				for _, f := range u.Elems {
					walk(f)
				}
			case PtrV:
				if u.Ref != nil {
					consts[u.Ref] = true
				}
				if u.Arr != nil {
					consts[u.Arr] = true
				}
			case FuncV:
				if u.Opaque != nil {
					consts[u.Opaque] = true
				}
			}
		}
		walk(v)
	}
	var mcells []*Cell
	for cell := range m.cells {
		mcells = append(mcells, cell)
	}
	sort.Slice(mcells, func(i, j int) bool { return mcells[i].ID < mcells[j].ID })
	for _, cell := range mcells {
		old := s.cells[cell]
		// pointers held in cells with Go-side targets cannot be havocked soundly
		if p, ok := old.(PtrV); ok && (p.Kind == PCell || p.Kind == PLeaf || p.Kind == PElem) {
			n.cells[cell] = PoisonV{"loop-modified pointer variable " + cell.Name}
			continue
		}
		if f, ok := old.(FuncV); ok && f.Fn != nil {
			n.cells[cell] = PoisonV{"loop-modified function variable " + cell.Name}
			continue
		}
		v := e.fresh(cell.T, tag+"."+cell.Name, s)
		n.cells[cell] = v
		note(v)
	}
	var wkeys []string
	for key := range m.whole {
		wkeys = append(wkeys, key)
	}
	sort.Strings(wkeys)
	for _, key := range wkeys {
		if e.isFinal(key) {
			continue
		}
		so := e.heapSorts[key]
		h := c.Fresh(tag+".H{"+key+"}", so)
		consts[h] = true
		n.heap[key] = h
	}
	var rkeys []string
	for key := range m.heap {
		rkeys = append(rkeys, key)
	}
	sort.Strings(rkeys)
	for _, key := range rkeys {
		rows := m.heap[key]
		if m.whole[key] {
			continue
		}
		so := e.heapSorts[key]
		h := e.heapGet(s, key, so)
		for _, r := range rows {
			f := c.Fresh(tag+".R{"+key+"}", so.Elem)
			consts[f] = true
			h = c.Store(h, r, f)
		}
		n.heap[key] = h
	}
	var pkeys []string
	for key := range m.heap2 {
		pkeys = append(pkeys, key)
	}
	sort.Strings(pkeys)
	for _, key := range pkeys {
		if m.whole[key] {
			continue
		}
		so := e.heapSorts[key]
		h, ok := n.heap[key]
		if !ok {
			h = e.heapGet(s, key, so)
		}
		for _, pr := range m.heap2[key] {
			whole := false
			for _, r := range m.heap[key] {
				if r == pr[0] {
					whole = true
				}
			}
			if whole {
				continue
			}
			f := c.Fresh(tag+".E{"+key+"}", so.Elem.Elem)
			consts[f] = true
			h = c.Store(h, pr[0], c.Store(c.Select(h, pr[0]), pr[1], f))
		}
		n.heap[key] = h
	}
	if m.next {
		nn := c.Fresh(tag+".next", Int)
		nn.AddFact(c.Le(s.next, nn))
		consts[nn] = true
		n.next = nn
	}
	if m.alloc {
		na := c.Fresh(tag+".alloc", Int)
		na.AddFact(c.Le(s.alloc, na))
		consts[na] = true
		n.alloc = na
	}
	return n
}

func (x *exec) enterLoop(li *loopInfo, s *State) *State {
	e := x.e
	c := e.C
	tag := fmt.Sprintf("L%d", li.ordinal)
	// 1. invariant holds on entry
	if li.spec != nil {
		for _, cl := range li.spec.Clauses {
			if cl.Kind != "invariant" {
				continue
			}
			g := x.evalClauseBool(cl, s, li.pos)
			x.oblige("inv-init", loopLabel(li, cl), li.pos, s, g, cl.Text)
		}
	}
	// a critical section that spans the loop head: the guarantee is checked
	// piecewise (lock..head, head..unlock); see monitor2.go
	x.monLoopHead(li, s, "init")
	// 2. modified set by fixpoint of dry runs
	m := newModSet()
	var hs *State
	freshBefore := map[*Term]bool{}
	for r := range e.freshRefs {
		freshBefore[r] = true
	}
	for round := 0; round < 8; round++ {
		consts := map[*Term]bool{}
		idStart := e.C.NumTerms()
		hs = x.havoc(s, m, consts, tag)
		var backs []*State
		e.dry++
		x.runRegion(li.body, li.head, hs.clone(), regionCB{onBack: func(from int, b *State) { backs = append(backs, b) }}, true)
		e.dry--
		before := m.size()
		memo := map[*Term]bool{}
		for _, b := range backs {
			for _, cell := range sortedCells(b.cells) {
				v := b.cells[cell]
				if !valueEq(v, hs.cells[cell]) {
					// variables declared inside the body (or inside inlined callees)
					// are re-initialised on every iteration: only those that exist
					// before the loop carry values around the back edge
					if _, existed := s.cells[cell]; existed {
						m.cells[cell] = true
					}
				}
			}
			for _, key := range sortedStateKeys(b.heap) {
				t := b.heap[key]
				so := e.heapSorts[key]
				base := e.heapGet(hs, key, so)
				if t == base || m.whole[key] {
					continue
				}
				var rows []*Term
				if rowsBetween(t, base, &rows, 0) {
					ok := true
					// rows of objects allocated inside the loop body did not exist
					// before the iteration: nothing to havoc for them
					newFresh := map[*Term]bool{}
					for r := range e.freshRefs {
						if !freshBefore[r] {
							newFresh[r] = true
						}
					}
					var keep []*Term
					fm := map[*Term]bool{}
					for _, r := range rows {
						if !mentions(r, newFresh, fm) {
							keep = append(keep, r)
						}
					}
					rows = keep
					for _, r := range rows {
						if mentions(r, consts, memo) || mentionsNewConst(r, idStart, map[*Term]bool{}) {
							// depends on values of this iteration (or on results obtained
							// in it): not a fixed location
							ok = false
						}
					}
					if ok {
						for _, r := range rows {
							// two-level heaps: try to narrow the row to the elements written
							if so.Elem.Kind == KArray {
								inner := c.Select(t, r)
								innerBase := c.Select(base, r)
								var idxs []*Term
								if rowsBetween(inner, innerBase, &idxs, 0) {
									fine := true
									for _, ix := range idxs {
										if mentions(ix, consts, memo) || mentions(ix, newFresh, fm) {
											fine = false
										}
									}
									if fine {
										for _, ix := range idxs {
											dup := false
											for _, q := range m.heap2[key] {
												if q[0] == r && q[1] == ix {
													dup = true
												}
											}
											if !dup {
												m.heap2[key] = append(m.heap2[key], [2]*Term{r, ix})
											}
										}
										continue
									}
								}
							}
							dup := false
							for _, q := range m.heap[key] {
								if q == r {
									dup = true
								}
							}
							if !dup {
								m.heap[key] = append(m.heap[key], r)
							}
						}
						continue
					}
				}
				m.whole[key] = true
				delete(m.heap, key)
			}
			if len(b.havocs) > len(hs.havocs) {
				for _, h := range b.havocs[len(hs.havocs):] {
					dup := false
					for _, q := range m.hv {
						if q.all == h.all && q.prefix == h.prefix {
							dup = true
						}
					}
					if !dup {
						m.hv = append(m.hv, havocRec{prefix: h.prefix, all: h.all})
					}
				}
			}
			if b.next != hs.next {
				m.next = true
			}
			if b.alloc != hs.alloc {
				m.alloc = true
			}
		}
		if m.size() == before {
			break
		}
		if e.Trace {
			fmt.Printf("  loop %d round %d: cells=%d whole=%v rows=%d next=%v alloc=%v\n", li.ordinal, round, len(m.cells), len(m.whole), len(m.heap), m.next, m.alloc)
			for k, r := range m.heap {
				for _, t := range r {
					fmt.Printf("     row %s: %s\n", k, shortTerm(t))
				}
			}
		}
		if round == 7 {
			e.unsupported("loop %d: modified set did not stabilise", li.ordinal)
		}
	}
	// cells allocated inside the loop body are fresh each iteration: they need no havoc
	consts := map[*Term]bool{}
	hs = x.havoc(s, m, consts, tag)
	li.snap = s
	x.monRebase(hs)
	// 3. assume invariant and automatic facts
	if cell, lim := x.rangeIndexOf(li, hs); cell != nil {
		if v, ok := hs.cells[cell].(*Term); ok {
			hs.assume(c, c.Le(c.IntC(-1), v))
			if lim != nil {
				hs.assume(c, c.Lt(v, lim))
			}
		}
	}
	// automatic frame invariant: havocked heap keys changed only where the
	// function's modifies clauses allow
	li.frameKeys = nil
	if x.topExec().contract != nil {
		for key := range m.whole {
			li.frameKeys = append(li.frameKeys, key)
		}
		for key := range m.heap {
			if !m.whole[key] {
				li.frameKeys = append(li.frameKeys, key)
			}
		}
		for key := range m.heap2 {
			if !m.whole[key] && len(m.heap[key]) == 0 {
				li.frameKeys = append(li.frameKeys, key)
			}
		}
		sort.Strings(li.frameKeys)
		for _, key := range li.frameKeys {
			if g := x.frameGoal(key, hs); g != nil {
				hs.assume(c, g)
			}
		}
	}
	if li.spec != nil {
		for _, cl := range li.spec.Clauses {
			switch cl.Kind {
			case "invariant":
				hs.assume(c, x.evalClauseBool(cl, hs, li.pos))
			}
		}
		li.variant = nil
		for _, cl := range li.spec.Clauses {
			if cl.Kind == "decreases" {
				v, ok := x.evalClause(cl, hs, li.pos).(*Term)
				if !ok || v.Sort != Int {
					e.unsupported("decreases clause must be an integer: %s", cl.Text)
				}
				li.variant = append(li.variant, v)
			}
		}
	}
	return hs
}

// rangeIndexOf returns the hidden index cell of a range-over-slice loop and
// the (loop-invariant) length it is compared with.
func (x *exec) rangeIndexOf(li *loopInfo, s *State) (*Cell, *Term) {
	hb := x.fn.Blocks[li.head]
	if len(hb.Instrs) == 0 {
		return nil, nil
	}
	ld, ok := hb.Instrs[0].(*ssa.UnOp)
	if !ok {
		return nil, nil
	}
	a, ok := ld.X.(*ssa.Alloc)
	if !ok || a.Comment != "rangeindex" {
		return nil, nil
	}
	cell := x.cellOf[a]
	var lim *Term
	if iff, ok := hb.Instrs[len(hb.Instrs)-1].(*ssa.If); ok {
		if cmp, ok := iff.Cond.(*ssa.BinOp); ok && cmp.Op == token.LSS {
			if v, ok := x.regs[cmp.Y].(*Term); ok && v.Sort == Int {
				lim = v
			}
			if cv, ok := cmp.Y.(*ssa.Const); ok {
				if t, ok := x.e.constVal(cv.Value, cv.Type()).(*Term); ok {
					lim = t
				}
			}
		}
	}
	return cell, lim
}

func loopLabel(li *loopInfo, cl *Clause) string {
	if cl.Label != "" {
		return fmt.Sprintf("loop%d.%s", li.ordinal, cl.Label)
	}
	return fmt.Sprintf("loop%d", li.ordinal)
}

func (x *exec) backEdge(li *loopInfo, s *State) {
	if li == nil || x.e.dry > 0 {
		return
	}
	x.monLoopHead(li, s, "back")
	// the set of locks held is the same on every arrival at the loop head
	if li.snap != nil {
		c := x.e.C
		for _, k := range sortedStateKeys(s.held, li.snap.held) {
			a, ok1 := s.held[k]
			b, ok2 := li.snap.held[k]
			if !ok1 {
				a = c.False()
			}
			if !ok2 {
				b = c.False()
			}
			x.oblige("lock", fmt.Sprintf("loop%d.same-locks", li.ordinal), li.pos, s, c.Eq(a, b), "same locks held at the back edge as on loop entry ("+shortHeapKey(k)+")")
		}
	}
	if li.spec == nil {
		return
	}
	c := x.e.C
	for _, cl := range li.spec.Clauses {
		if cl.Kind == "invariant" {
			g := x.evalClauseBool(cl, s, li.pos)
			x.oblige("inv-pres", loopLabel(li, cl), li.pos, s, g, cl.Text)
		}
	}
	k := 0
	for _, cl := range li.spec.Clauses {
		if cl.Kind == "decreases" && k < len(li.variant) {
			v, _ := x.evalClause(cl, s, li.pos).(*Term)
			v0 := li.variant[k]
			k++
			x.oblige("decreases", loopLabel(li, cl), li.pos, s, c.And(c.Le(c.IntC(0), v0), c.Lt(v, v0)), cl.Text)
		}
	}
}

// ---- instructions ----

// step executes one instruction; returns false when the path ends.
func (x *exec) step(s *State, in ssa.Instruction) bool {
	e := x.e
	c := e.C
	if p := in.Pos(); p.IsValid() {
		x.pos = p
	}
	e.cur = x
	e.steps++
	if e.steps%256 == 0 {
		if e.C.NumTerms() > e.funcTermBase+6000000 || time.Since(e.funcStart) > 120*time.Second {
			e.unsupported("verification-condition generation exceeded its budget (%d terms, %.0fs)", e.C.NumTerms()-e.funcTermBase, time.Since(e.funcStart).Seconds())
		}
	}
	switch i := in.(type) {
	case *ssa.DebugRef:
		return true
	case *ssa.Alloc:
		x.regs[i] = x.doAlloc(s, i)
	case *ssa.Store:
		p, ok := x.val(i.Addr, s).(PtrV)
		if !ok {
			e.unsupported("store through non-pointer at %s", e.P.Pos(i.Pos()))
		}
		x.nilCheck(s, p, i.Pos())
		x.lockset(s, p, true, i.Pos())
		sv := x.val(i.Val, s)
		if pv, ok := sv.(PtrV); ok && pv.Kind == PCell && pv.Cell != nil && p.Kind != PCell {
			// the address of a local is stored into the heap (&metadataInfo{Type: &tpe}):
			// the heap gets a fresh reference whose pointee is unknown, and the
			// local holds arbitrary values after every later call (whoever reads
			// the structure may write through the pointer)
			dup := false
			for _, c0 := range x.shared {
				if c0 == pv.Cell {
					dup = true
				}
			}
			if !dup {
				x.shared = append(x.shared, pv.Cell)
			}
			sv = e.ptrFromRef(e.newRef(s, "escaped:"+pv.Cell.Name), i.Val.Type())
		}
		if err := e.store(s, p, sv); err != nil {
			e.unsupported("%v at %s", err, e.P.Pos(i.Pos()))
		}
	case *ssa.UnOp:
		x.regs[i] = x.unop(s, i)
	case *ssa.BinOp:
		x.regs[i] = x.binop(i.Op, x.val(i.X, s), x.val(i.Y, s), i.X.Type(), i.Y.Type(), s, i.Pos())
	case *ssa.Convert:
		x.regs[i] = x.convert(x.val(i.X, s), i.X.Type(), i.Type(), s)
	case *ssa.ChangeType:
		x.regs[i] = x.val(i.X, s)
	case *ssa.ChangeInterface:
		x.regs[i] = x.val(i.X, s)
	case *ssa.MakeInterface:
		x.regs[i] = x.makeIface(s, x.val(i.X, s), i.X.Type())
	case *ssa.TypeAssert:
		x.regs[i] = x.typeAssert(s, i)
	case *ssa.FieldAddr:
		p, ok := x.val(i.X, s).(PtrV)
		if !ok {
			x.regs[i] = PoisonV{"FieldAddr of non-pointer"}
			break
		}
		x.nilCheck(s, p, i.Pos())
		x.regs[i] = e.fieldAddr(p, i.Field)
	case *ssa.Field:
		sv, ok := x.val(i.X, s).(StructV)
		if !ok {
			x.regs[i] = PoisonV{"Field of non-struct"}
			break
		}
		x.regs[i] = sv.F[i.Field]
	case *ssa.IndexAddr:
		x.regs[i] = x.indexAddr(s, i)
	case *ssa.Index:
		x.regs[i] = x.index(s, i)
	case *ssa.Slice:
		x.regs[i] = x.slice(s, i)
	case *ssa.MakeSlice:
		ln, _ := x.val(i.Len, s).(*Term)
		cp, _ := x.val(i.Cap, s).(*Term)
		if ln == nil || cp == nil {
			e.unsupported("make with non-integer size")
		}
		x.regs[i] = x.makeSlice(s, i.Type(), ln, cp, i.Pos())
	case *ssa.MakeMap:
		x.regs[i] = x.makeMap(s, i.Type())
	case *ssa.MakeChan:
		r := e.newRef(s, "chan")
		// a new channel is open
		ch := e.heapGet(s, "chan#closed", Array(Int, Bool))
		e.heapSet(s, "chan#closed", c.Store(ch, r, c.False()))
		x.regs[i] = r
	case *ssa.MakeClosure:
		f := FuncV{Fn: i.Fn.(*ssa.Function)}
		for _, b := range i.Bindings {
			f.Bind = append(f.Bind, x.val(b, s))
		}
		x.regs[i] = f
	case *ssa.Lookup:
		x.regs[i] = x.lookup(s, i)
	case *ssa.MapUpdate:
		x.mapUpdate(s, i)
	case *ssa.Range:
		x.regs[i] = x.val(i.X, s)
	case *ssa.Next:
		x.regs[i] = x.next(s, i)
	case *ssa.Extract:
		t, ok := x.val(i.Tuple, s).(TupleV)
		if !ok {
			x.regs[i] = PoisonV{"extract from non-tuple"}
			break
		}
		x.regs[i] = t[i.Index]
	case *ssa.Phi:
		b := i.Block()
		var out Value
		for k, edge := range i.Edges {
			pred := b.Preds[k]
			ps := x.blockOut[pred.Index]
			v := x.val(edge, s)
			if ps == nil {
				continue
			}
			if out == nil {
				out = v
			} else {
				out = e.mergeVal(x.edgePC(pred, b), v, out)
			}
		}
		if out == nil {
			out = PoisonV{"phi without executed predecessor"}
		}
		x.regs[i] = out
	case *ssa.Call:
		x.regs[i] = x.doCall(s, &i.Call, i.Pos(), i)
		if s.pc.IsFalse() {
			return false
		}
		x.havocShared(s)
	case *ssa.Defer:
		x.doDefer(s, i)
	case *ssa.RunDefers:
		x.runDefers(s)
	case *ssa.Go:
		x.doGo(s, i)
	case *ssa.Send:
		x.chanOp(s, x.val(i.Chan, s), "send", i.Pos())
		if cht, ok := x.val(i.Chan, s).(*Term); ok {
			x.setHolds(s, cht, c.True())
		}
	case *ssa.Select:
		x.regs[i] = x.doSelect(s, i)
	case *ssa.SliceToArrayPointer:
		sv, ok := x.val(i.X, s).(SliceV)
		if !ok {
			x.regs[i] = PoisonV{"SliceToArrayPointer"}
			break
		}
		at := i.Type().(*types.Pointer).Elem().Underlying().(*types.Array)
		x.oblige("bounds", "", i.Pos(), s, c.Ge(sv.Len, c.IntC(at.Len())), "slice to array pointer")
		if sv.Off.Op == "int" && sv.Off.IVal.Sign() == 0 {
			x.regs[i] = PtrV{Kind: PArr, Arr: sv.Arr, T: i.Type().(*types.Pointer).Elem()}
		} else {
			x.regs[i] = PoisonV{"SliceToArrayPointer at non-zero offset"}
		}
	case *ssa.MultiConvert:
		x.regs[i] = x.convert(x.val(i.X, s), i.X.Type(), i.Type(), s)
	case *ssa.If, *ssa.Jump:
		x.blockOut[in.Block().Index] = s
		return true
	case *ssa.Return:
		var vals []Value
		for _, r := range i.Results {
			vals = append(vals, x.val(r, s))
		}
		x.rets = append(x.rets, retRec{st: s.clone(), vals: vals, pos: i.Pos(), idx: len(x.rets)})
		return false
	case *ssa.Panic:
		x.doPanic(s, i.Pos(), "explicit panic")
		return false
	default:
		e.unsupported("instruction %T at %s", in, e.P.Pos(in.Pos()))
	}
	if v, ok := in.(ssa.Value); ok {
		if pv, ok := x.regs[v].(PoisonV); ok && e.Trace {
			fmt.Printf("  poison %s = %s: %s\n", v.Name(), in.String(), pv.Why)
		}
	}
	return true
}

// edgePC approximates the condition under which control came from pred to b.
func (x *exec) edgePC(pred, b *ssa.BasicBlock) *Term {
	ps := x.blockOut[pred.Index]
	if ps == nil {
		return x.e.C.False()
	}
	pc := ps.pc
	if t, ok := pred.Instrs[len(pred.Instrs)-1].(*ssa.If); ok {
		cv, _ := x.val(t.Cond, ps).(*Term)
		if cv != nil {
			if pred.Succs[0] == b && pred.Succs[1] != b {
				pc = x.e.C.And(pc, cv)
			} else if pred.Succs[1] == b && pred.Succs[0] != b {
				pc = x.e.C.And(pc, x.e.C.Not(cv))
			}
		}
	}
	return pc
}

func (x *exec) doPanic(s *State, pos token.Pos, what string) {
	if x.topContract() != nil && x.topContract().Has("maypanic") {
		s.pc = x.e.C.False()
		return
	}
	x.oblige("panic", "", pos, s, x.e.C.False(), what)
	s.pc = x.e.C.False()
}

func (x *exec) topContract() *Block {
	t := x
	for t.parent != nil {
		t = t.parent
	}
	return t.contract
}

func (x *exec) doAlloc(s *State, a *ssa.Alloc) Value {
	e := x.e
	t := a.Type().(*types.Pointer).Elem()
	if at, ok := t.Underlying().(*types.Array); ok {
		if ls := e.leavesOf(at.Elem()); len(ls) == 1 || structOf(at.Elem()) != nil || len(ls) > 1 {
			// arrays live in the element heap so that they can be sliced
			arr := e.newRef(s, "array")
			e.localArrays = append(e.localArrays, arr)
			p := PtrV{Kind: PArr, Arr: arr, T: t}
			x.zeroArray(s, arr, at)
			return p
		}
	}
	if structOf(t) != nil && a.Heap {
		r := e.newRef(s, "new:"+a.Comment)
		p := PtrV{Kind: PObj, Ref: r, T: t}
		if err := e.store(s, p, e.zero(t)); err != nil {
			e.unsupported("zeroing %s: %v", t, err)
		}
		return p
	}
	cell := x.cellOf[a]
	if cell == nil {
		name := a.Comment
		if name == "" {
			name = a.Name()
		}
		cell = e.newCell(name, t)
		x.cellOf[a] = cell
	}
	s.cells[cell] = e.zero(t)
	return PtrV{Kind: PCell, Cell: cell, T: t}
}

// noteAlloc raises the obligations of the contract's "alloc" clauses: the
// bytes allocated since entry stay within the bound, checked at every
// allocation site.
func (x *exec) noteAlloc(s *State, pos token.Pos, what string) {
	e := x.e
	if e.dry > 0 {
		return
	}
	t := x.topExec()
	if t.contract == nil {
		return
	}
	for _, cl := range t.contract.Of("alloc") {
		b, ok := t.evalClause(cl, t.entry, token.NoPos).(*Term)
		if !ok || b.Sort != Int {
			t.bindFail(cl, fmt.Errorf("alloc bound is not an integer"))
			continue
		}
		lbl := cl.Label
		if lbl == "" {
			lbl = "bound"
		}
		g := e.C.Le(e.C.Sub(s.alloc, t.entry.alloc), b)
		x.oblige("alloc", lbl+"@"+what, pos, s, g, "bytes allocated <= "+cl.Text)
	}
}

func (x *exec) zeroArray(s *State, arr *Term, at *types.Array) {
	e := x.e
	c := e.C
	el := at.Elem()
	if structOf(el) != nil {
		x.zeroStructElems(s, arr, el)
		return
	}
	zs, err := e.toLeaves(el, e.zero(el))
	if err != nil {
		e.unsupported("array of %s", el)
	}
	for k, l := range e.leavesOf(el) {
		key := elemKey(el) + l.comp
		h := e.heapGet(s, key, Array(Int, Array(Int, l.sort)))
		e.heapSet(s, key, c.Store(h, arr, c.ConstArr(Array(Int, l.sort), zs[k])))
	}
}

func (x *exec) nilCheck(s *State, p PtrV, pos token.Pos) {
	c := x.e.C
	switch p.Kind {
	case PObj, PBox:
		// sub-objects of a non-nil object are never nil
		if p.Ref.Op == "app" && len(p.Ref.Name) > 4 && p.Ref.Name[:4] == "sub:" {
			x.nilCheck(s, PtrV{Kind: PObj, Ref: p.Ref.Args[0], T: p.T}, pos)
			return
		}
		x.oblige("nil", "", pos, s, c.Ne(p.Ref, c.IntC(0)), "nil dereference")
	case PArr:
		x.oblige("nil", "", pos, s, c.Ne(p.Arr, c.IntC(0)), "nil dereference")
	}
}

func (x *exec) unop(s *State, i *ssa.UnOp) Value {
	e := x.e
	c := e.C
	v := x.val(i.X, s)
	if pv, ok := v.(PoisonV); ok {
		return pv
	}
	switch i.Op {
	case token.MUL:
		p, ok := v.(PtrV)
		if !ok {
			return PoisonV{"load through non-pointer"}
		}
		x.nilCheck(s, p, i.Pos())
		x.lockset(s, p, false, i.Pos())
		return e.load(s, p)
	case token.NOT:
		return c.Not(v.(*Term))
	case token.SUB:
		switch repOf(i.Type()) {
		case RInt:
			return e.wrap1(c.Neg(v.(*Term)), i.Type())
		case RByte:
			return c.BVBin("bvsub", c.BVC(0), v.(*Term))
		case RFlt:
			return c.App("flt.neg", Flt, v.(*Term))
		}
	case token.XOR:
		switch repOf(i.Type()) {
		case RInt:
			_, signed := typeBits(i.Type())
			if signed {
				return c.Sub(c.IntC(-1), v.(*Term))
			}
			_, hi, _ := intRange(i.Type())
			return c.Sub(c.IntB(hi), v.(*Term))
		case RByte:
			return c.BVNot(v.(*Term))
		}
	case token.ARROW:
		x.chanOp(s, v, "recv", i.Pos())
		if cht, ok := v.(*Term); ok {
			x.setHolds(s, cht, c.False())
			h := e.heapGet(s, "chan#lastrecv", Array(Int, Int))
			e.heapSet(s, "chan#lastrecv", c.Store(h, c.IntC(0), cht))
		}
		ch := i.X.Type().Underlying().(*types.Chan)
		r := e.fresh(ch.Elem(), "recv", s)
		if i.CommaOk {
			return TupleV{r, c.Fresh("recvok", Bool)}
		}
		return r
	}
	return PoisonV{"unop " + i.Op.String()}
}

// waitsFor: "waitsfor <expr>" in the contract of the function under
// verification: every blocking channel operation must be a select that also
// receives from <expr> (the torrent's Done channel), so that it cannot outlive
// the party it talks to.
func (x *exec) waitsFor(s *State) []*Term {
	t := x.topExec()
	if t != x || t.contract == nil || x.e.dry > 0 {
		return nil
	}
	cls := t.contract.Of("waitsfor")
	if len(cls) == 0 {
		return nil
	}
	var out []*Term
	for _, it := range splitTop(cls[0].Text, ',') {
		sub := &Clause{Kind: "waitsfor", Text: trim(it), File: cls[0].File, Line: cls[0].Line}
		if v, ok := x.evalClause(sub, s, token.NoPos).(*Term); ok {
			out = append(out, v)
		}
	}
	return out
}

func (x *exec) chanOp(s *State, ch Value, what string, pos token.Pos) {
	if x.waitsFor(s) != nil {
		x.oblige("blocking", what, pos, s, x.e.C.False(), "blocking channel "+what+" outside a select that also waits for the Done channel")
	}
	// blocking is not modelled; a send on a closed channel would panic
	if what == "send" {
		if r, ok := ch.(*Term); ok {
			h := x.e.heapGet(s, "chan#closed", Array(Int, Bool))
			x.oblige("chan", "", pos, s, x.e.C.Not(x.e.C.Select(h, r)), "send on closed channel")
		}
	}
}

func (x *exec) makeIface(s *State, v Value, t types.Type) Value {
	e := x.e
	if repOf(t) == RIface {
		return v
	}
	if pv, ok := v.(PoisonV); ok {
		return pv
	}
	tag := e.typeTag(t)
	if p, ok := v.(PtrV); ok {
		r, err := e.refOfPtr(p)
		if err != nil {
			pp := p
			return IfaceV{Tag: tag, Box: e.C.Fresh("localbox", Int), Ptr: &pp}
		}
		return IfaceV{Tag: tag, Box: r}
	}
	if repOf(t) == RMap || repOf(t) == RChan {
		return IfaceV{Tag: tag, Box: v.(*Term)}
	}
	r := e.newRef(s, "box")
	var p PtrV
	if structOf(t) != nil {
		p = PtrV{Kind: PObj, Ref: r, T: t}
	} else {
		p = PtrV{Kind: PBox, Ref: r, T: t}
	}
	if err := e.store(s, p, v); err != nil {
		return PoisonV{"boxing: " + err.Error()}
	}
	return IfaceV{Tag: tag, Box: r}
}

func (x *exec) unbox(s *State, iv IfaceV, t types.Type) Value {
	e := x.e
	switch repOf(t) {
	case RPtr:
		if iv.Ptr != nil {
			return *iv.Ptr
		}
		return e.ptrFromRef(iv.Box, t)
	case RMap, RChan:
		return iv.Box
	}
	if structOf(t) != nil {
		return e.load(s, PtrV{Kind: PObj, Ref: iv.Box, T: t})
	}
	return e.load(s, PtrV{Kind: PBox, Ref: iv.Box, T: t})
}

func (x *exec) typeAssert(s *State, i *ssa.TypeAssert) Value {
	e := x.e
	c := e.C
	iv, ok := x.val(i.X, s).(IfaceV)
	if !ok {
		return PoisonV{"type assertion on non-interface"}
	}
	at := i.AssertedType
	if repOf(at) == RIface {
		okT := c.And(c.Ne(iv.Tag, c.IntC(0)), e.implements(iv.Tag, at))
		if i.CommaOk {
			z := e.zero(at).(IfaceV)
			return TupleV{e.mergeVal(okT, iv, z), okT}
		}
		x.oblige("assert-type", "", i.Pos(), s, okT, "interface conversion")
		return iv
	}
	okT := c.Eq(iv.Tag, e.typeTag(at))
	val := x.unbox(s, iv, at)
	if i.CommaOk {
		return TupleV{e.mergeVal(okT, val, e.zero(at)), okT}
	}
	x.oblige("assert-type", "", i.Pos(), s, okT, "type assertion to "+at.String())
	s.assume(c, okT)
	return val
}

func (e *Engine) implements(tag *Term, iface types.Type) *Term {
	c := e.C
	it := iface.Underlying().(*types.Interface)
	if it.NumMethods() == 0 {
		return c.True()
	}
	if tag.Op == "int" {
		if t, ok := e.tagTypes[int(tag.IVal.Int64())]; ok {
			return c.BoolC(types.Implements(t, it))
		}
	}
	return c.App("impl:"+typeKey(iface), Bool, tag)
}

func (x *exec) indexAddr(s *State, i *ssa.IndexAddr) Value {
	e := x.e
	c := e.C
	idx, _ := x.val(i.Index, s).(*Term)
	if idx == nil {
		return PoisonV{"index"}
	}
	if idx.Sort == BV8 {
		idx = c.BV2Nat(idx)
	}
	switch b := x.val(i.X, s).(type) {
	case SliceV:
		el := i.X.Type().Underlying().(*types.Slice).Elem()
		x.oblige("bounds", "", i.Pos(), s, c.And(c.Le(c.IntC(0), idx), c.Lt(idx, b.Len)), "index out of range")
		return x.elemPtr(b.Arr, c.Add(b.Off, idx), el)
	case PtrV:
		at, ok := b.T.Underlying().(*types.Array)
		if !ok {
			return PoisonV{"IndexAddr on pointer to non-array"}
		}
		x.oblige("bounds", "", i.Pos(), s, c.And(c.Le(c.IntC(0), idx), c.Lt(idx, c.IntC(at.Len()))), "index out of range")
		switch b.Kind {
		case PArr:
			x.nilCheck(s, b, i.Pos())
			return x.elemPtr(b.Arr, idx, at.Elem())
		case PCell:
			np := b
			np.Path = append(append([]Sel(nil), b.Path...), Sel{Index: idx})
			np.T = at.Elem()
			return np
		case PLeaf:
			if b.Idx == nil {
				np := b
				np.Idx = idx
				return np
			}
		}
	case PoisonV:
		return b
	}
	return PoisonV{"IndexAddr"}
}

func (x *exec) elemPtr(arr, idx *Term, el types.Type) PtrV {
	if structOf(el) != nil {
		return x.e.elemObj(arr, idx, el)
	}
	return PtrV{Kind: PElem, Arr: arr, Idx: idx, T: el}
}

func (x *exec) index(s *State, i *ssa.Index) Value {
	e := x.e
	c := e.C
	idx, _ := x.val(i.Index, s).(*Term)
	if idx == nil {
		return PoisonV{"index"}
	}
	if idx.Sort == BV8 {
		idx = c.BV2Nat(idx)
	}
	switch b := x.val(i.X, s).(type) {
	case *Term: // string
		if b.Sort == Str {
			x.oblige("bounds", "", i.Pos(), s, c.And(c.Le(c.IntC(0), idx), c.Lt(idx, e.strLen(b))), "string index out of range")
			return c.App("s.at", BV8, b, idx)
		}
	case ArrayV:
		at := i.X.Type().Underlying().(*types.Array)
		x.oblige("bounds", "", i.Pos(), s, c.And(c.Le(c.IntC(0), idx), c.Lt(idx, c.IntC(at.Len()))), "index out of range")
		return e.pathGet(b, i.X.Type(), []Sel{{Index: idx}})
	case PoisonV:
		return b
	}
	return PoisonV{"Index"}
}

func (x *exec) slice(s *State, i *ssa.Slice) Value {
	e := x.e
	c := e.C
	get := func(v ssa.Value) *Term {
		if v == nil {
			return nil
		}
		t, _ := x.val(v, s).(*Term)
		if t != nil && t.Sort == BV8 {
			t = c.BV2Nat(t)
		}
		return t
	}
	lo, hi, mx := get(i.Low), get(i.High), get(i.Max)
	if lo == nil {
		lo = c.IntC(0)
	}
	switch b := x.val(i.X, s).(type) {
	case SliceV:
		if hi == nil {
			hi = b.Len
		}
		top := b.Cap
		if mx != nil {
			x.oblige("bounds", "", i.Pos(), s, c.And(c.Le(hi, mx), c.Le(mx, b.Cap)), "slice bounds out of range (max)")
			top = mx
		}
		x.oblige("bounds", "", i.Pos(), s, c.And(c.Le(c.IntC(0), lo), c.Le(lo, hi), c.Le(hi, b.Cap)), "slice bounds out of range")
		r := SliceV{Arr: b.Arr, Off: c.Add(b.Off, lo), Len: c.Sub(hi, lo), Cap: c.Sub(top, lo)}
		// slicing a nil slice gives nil: keep Off 0
		if !(b.Arr.Op == "int" && b.Arr.IVal.Sign() != 0) {
			r.Off = c.Ite(c.Eq(b.Arr, c.IntC(0)), c.IntC(0), r.Off)
		}
		return r
	case *Term:
		if b.Sort == Str {
			n := e.strLen(b)
			if hi == nil {
				hi = n
			}
			x.oblige("bounds", "", i.Pos(), s, c.And(c.Le(c.IntC(0), lo), c.Le(lo, hi), c.Le(hi, n)), "string slice bounds out of range")
			r := c.App("s.sub", Str, b, lo, hi)
			r.AddFact(c.Eq(c.App("s.len", Int, r), c.Sub(hi, lo)))
			return r
		}
	case PtrV:
		at, ok := b.T.Underlying().(*types.Array)
		if ok && b.Kind == PArr {
			n := c.IntC(at.Len())
			if hi == nil {
				hi = n
			}
			top := n
			if mx != nil {
				top = mx
			}
			x.nilCheck(s, b, i.Pos())
			x.oblige("bounds", "", i.Pos(), s, c.And(c.Le(c.IntC(0), lo), c.Le(lo, hi), c.Le(hi, top), c.Le(top, n)), "slice bounds out of range")
			return SliceV{Arr: b.Arr, Off: lo, Len: c.Sub(hi, lo), Cap: c.Sub(top, lo)}
		}
	case PoisonV:
		return b
	}
	return PoisonV{"Slice of " + i.X.Type().String()}
}

func sizeOf(t types.Type) int64 {
	sz := types.SizesFor("gc", "amd64")
	return sz.Sizeof(t)
}

func (x *exec) makeSlice(s *State, t types.Type, ln, cp *Term, pos token.Pos) Value {
	e := x.e
	c := e.C
	el := t.Underlying().(*types.Slice).Elem()
	x.oblige("make", "", pos, s, c.And(c.Le(c.IntC(0), ln), c.Le(ln, cp), c.Le(c.Mul(cp, c.IntC(max64(sizeOf(el), 1))), c.IntB(maxCap))), "makeslice: len out of range")
	arr := e.newRef(s, "make")
	if structOf(el) == nil {
		zs, err := e.toLeaves(el, e.zero(el))
		if err != nil {
			return PoisonV{"make of " + el.String()}
		}
		for k, l := range e.leavesOf(el) {
			key := elemKey(el) + l.comp
			h := e.heapGet(s, key, Array(Int, Array(Int, l.sort)))
			e.heapSet(s, key, c.Store(h, arr, c.ConstArr(Array(Int, l.sort), zs[k])))
		}
	} else {
		x.zeroStructElems(s, arr, el)
	}
	s.alloc = c.Add(s.alloc, c.Mul(cp, c.IntC(sizeOf(el))))
	x.noteAlloc(s, pos, "make")
	return SliceV{Arr: arr, Off: c.IntC(0), Len: ln, Cap: cp}
}

func max64(a, b int64) int64 {
	if a > b {
		return a
	}
	return b
}

// leafPath describes one leaf heap of a (possibly nested) struct element type.
type leafPath struct {
	key  string
	sort *Sort
	typ  types.Type
	zero *Term
}

func (e *Engine) structLeaves(el types.Type) []leafPath {
	var out []leafPath
	var walk func(t types.Type, prefix string)
	walk = func(t types.Type, prefix string) {
		st := structOf(t)
		for i := 0; i < st.NumFields(); i++ {
			ft := st.Field(i).Type()
			key := prefix + "." + st.Field(i).Name()
			if structOf(ft) != nil {
				walk(ft, key)
				continue
			}
			ls := e.leavesOf(ft)
			if ls == nil {
				e.unsupported("struct field of type %s in a slice element", ft)
			}
			zs, err := e.toLeaves(ft, e.zero(ft))
			if err != nil {
				e.unsupported("zero of %s: %v", ft, err)
			}
			for k, l := range ls {
				out = append(out, leafPath{key: key + l.comp, sort: l.sort, typ: ft, zero: zs[k]})
			}
		}
	}
	walk(el, "E:"+typeKey(el))
	return out
}

// zeroStructElems makes every element of the fresh array arr the zero struct.
func (x *exec) zeroStructElems(s *State, arr *Term, el types.Type) {
	e := x.e
	c := e.C
	for _, lp := range e.structLeaves(el) {
		h := e.heapGet(s, lp.key, Array(Int, Array(Int, lp.sort)))
		e.heapSet(s, lp.key, c.Store(h, arr, c.ConstArr(Array(Int, lp.sort), lp.zero)))
	}
}

func shortTerm(t *Term) string {
	s := t.String()
	if len(s) > 160 {
		s = s[:160] + "..."
	}
	return s
}

// mentionsNewConst: t mentions a constant created after term number id.
func mentionsNewConst(t *Term, id int, seen map[*Term]bool) bool {
	if seen[t] {
		return false
	}
	seen[t] = true
	if t.Op == "const" && t.ID() > id {
		return true
	}
	for _, a := range t.Args {
		if mentionsNewConst(a, id, seen) {
			return true
		}
	}
	return false
}

// setHolds maintains the ghost "this function holds a token of the channel used
// as a semaphore" (spec: holds_(ch)): a completed send acquires, a completed
// receive releases. Only the function's own channel operations change it.
func (x *exec) setHolds(s *State, ch *Term, v *Term) {
	e := x.e
	h := e.heapGet(s, "chan#holds", Array(Int, Bool))
	e.heapSet(s, "chan#holds", e.C.Store(h, ch, v))
}
