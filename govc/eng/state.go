package eng

import (
	"fmt"
	"go/types"
	"math/big"
	"sort"
	"strings"

	. "govc/term"
)

// State is a symbolic program state. States are immutable-by-convention
// between blocks: clone before mutation.
type State struct {
	pc    *Term
	cells map[*Cell]Value
	heap  map[string]*Term
	next  *Term // allocation counter: every reference in use is < next
	alloc *Term // ghost: bytes allocated so far
	defers []*deferRec
	held  map[string]*Term // lock key -> Bool (held)
	snap  map[string]*State // named snapshots (lock acquisition etc.)
	owners map[string]PtrV  // owner object of each monitor lock taken
	havocs []havocRec       // wholesale heap havocs so far (for keys first read later)
}

// havocRec: a call havocked every heap key matching prefix ("*" suffix = true
// prefix, otherwise the key and its #components; all = every key). Keys that
// no state has read yet are not in State.heap: their base symbol is chosen by
// the latest matching record, so that a first read AFTER the call does not see
// the entry-state value.
type havocRec struct {
	prefix string
	all    bool
	id     int
}

func keyMatches(prefix, key string) bool {
	if strings.HasSuffix(prefix, "*") {
		return strings.HasPrefix(key, prefix[:len(prefix)-1])
	}
	return key == prefix || strings.HasPrefix(key, prefix+"#")
}

func (e *Engine) addHavoc(s *State, prefix string, all bool) {
	e.havocSeq++
	s.havocs = append(s.havocs[:len(s.havocs):len(s.havocs)], havocRec{prefix: prefix, all: all, id: e.havocSeq})
}

// isFinal: the heap key is a field declared "final" (never assigned after the
// struct's creation): havocs leave it alone.
func (e *Engine) isFinal(key string) bool {
	if e.finals == nil {
		e.finals = map[string]bool{}
		if e.P != nil {
			for _, b := range e.P.Blocks {
				if b.Kind == "final" {
					for _, k := range strings.Fields(b.Header) {
						e.finals[k] = true
					}
				}
			}
		}
	}
	return e.finals[key] || key == "chan#closedhere" || key == "chan#holds"
}

func (e *Engine) heapBase(s *State, key string, so *Sort) *Term {
	if e.isFinal(key) {
		return heapInit(e.C, key, so)
	}
	for i := len(s.havocs) - 1; i >= 0; i-- {
		h := s.havocs[i]
		if h.all || keyMatches(h.prefix, key) {
			return e.C.Const(fmt.Sprintf("H@%d:%s", h.id, key), so)
		}
	}
	return heapInit(e.C, key, so)
}

type deferRec struct {
	guard *Term
	call  func(e *exec, s *State) // executes the deferred call, mutating s
}

func (s *State) clone() *State {
	n := &State{pc: s.pc, next: s.next, alloc: s.alloc, havocs: s.havocs}
	n.cells = make(map[*Cell]Value, len(s.cells))
	for k, v := range s.cells {
		n.cells[k] = v
	}
	n.heap = make(map[string]*Term, len(s.heap))
	for k, v := range s.heap {
		n.heap[k] = v
	}
	n.defers = append([]*deferRec(nil), s.defers...)
	n.held = make(map[string]*Term, len(s.held))
	for k, v := range s.held {
		n.held[k] = v
	}
	n.snap = make(map[string]*State, len(s.snap))
	for k, v := range s.snap {
		n.snap[k] = v
	}
	if s.owners != nil {
		n.owners = make(map[string]PtrV, len(s.owners))
		for k, v := range s.owners {
			n.owners[k] = v
		}
	}
	return n
}

// heapSort returns the sort of heap array for key with leaf sort.
func heapInit(c *Ctx, key string, so *Sort) *Term {
	return c.Const("H0:"+key, so)
}

func (e *Engine) heapGet(s *State, key string, so *Sort) *Term {
	if t, ok := s.heap[key]; ok {
		if t.Sort != so {
			panic(fmt.Sprintf("heap key %s used at sorts %s and %s", key, t.Sort, so))
		}
		return t
	}
	if old, ok := e.heapSorts[key]; ok && old != so {
		panic(fmt.Sprintf("heap key %s used at sorts %s and %s", key, old, so))
	}
	e.heapSorts[key] = so
	return e.heapBase(s, key, so)
}

func (e *Engine) heapSet(s *State, key string, t *Term) {
	e.heapSorts[key] = t.Sort
	s.heap[key] = t
}

// ---- leaf decomposition of non-struct types ----

type leaf struct {
	comp string
	sort *Sort
	typ  types.Type // for range facts (scalar leaves)
}

func (e *Engine) leavesOf(t types.Type) []leaf {
	switch repOf(t) {
	case RBool, RInt, RByte, RStr, RFlt, RMap, RChan:
		return []leaf{{"", sortOfScalar(t), t}}
	case RPtr:
		return []leaf{{"", Int, t}}
	case RSlice:
		return []leaf{{"#arr", Int, nil}, {"#off", Int, nil}, {"#len", Int, nil}, {"#cap", Int, nil}}
	case RIface:
		return []leaf{{"#tag", Int, nil}, {"#box", Int, nil}}
	case RFunc:
		return []leaf{{"#fn", Int, nil}}
	case RArray:
		a := t.Underlying().(*types.Array)
		if es := sortOfScalar(a.Elem()); es != nil {
			return []leaf{{"#a", Array(Int, es), nil}}
		}
		if repOf(a.Elem()) == RPtr {
			return []leaf{{"#a", Array(Int, Int), nil}}
		}
	}
	return nil
}

// fromLeaves rebuilds a Value of type t from its leaf terms.
func (e *Engine) fromLeaves(t types.Type, ts []*Term, st *State) Value {
	switch repOf(t) {
	case RBool, RInt, RByte, RStr, RFlt, RMap, RChan:
		e.rangeFact(ts[0], t)
		e.refFact(ts[0], t, st)
		return ts[0]
	case RPtr:
		ts[0].AddFact(e.C.Le(e.C.IntC(0), ts[0]))
		e.refBound(ts[0], st)
		return e.ptrFromRef(ts[0], t)
	case RSlice:
		v := SliceV{ts[0], ts[1], ts[2], ts[3]}
		e.sliceFacts(v)
		e.refBound(v.Arr, st)
		return v
	case RIface:
		ts[0].AddFact(e.C.And(e.C.Le(e.C.IntC(0), ts[0]), e.C.Le(e.C.IntC(0), ts[1])))
		e.refBound(ts[1], st)
		return IfaceV{Tag: ts[0], Box: ts[1]}
	case RFunc:
		return FuncV{Opaque: ts[0]}
	case RArray:
		return ArrayV{A: ts[0]}
	}
	return PoisonV{"fromLeaves " + t.String()}
}

func (e *Engine) toLeaves(t types.Type, v Value) ([]*Term, error) {
	switch repOf(t) {
	case RBool, RInt, RByte, RStr, RFlt, RMap, RChan:
		if x, ok := v.(*Term); ok {
			return []*Term{x}, nil
		}
	case RPtr:
		if p, ok := v.(PtrV); ok {
			r, err := e.refOfPtr(p)
			if err != nil {
				return nil, err
			}
			return []*Term{r}, nil
		}
	case RSlice:
		if x, ok := v.(SliceV); ok {
			return []*Term{x.Arr, x.Off, x.Len, x.Cap}, nil
		}
	case RIface:
		if x, ok := v.(IfaceV); ok {
			if x.Ptr != nil {
				return nil, fmt.Errorf("interface holding a pointer to a local cannot be stored")
			}
			return []*Term{x.Tag, x.Box}, nil
		}
	case RFunc:
		if x, ok := v.(FuncV); ok {
			return []*Term{e.funcIdent(x)}, nil
		}
	case RArray:
		if x, ok := v.(ArrayV); ok && x.A != nil {
			return []*Term{x.A}, nil
		}
	}
	if p, ok := v.(PoisonV); ok {
		return nil, fmt.Errorf("poison: %s", p.Why)
	}
	return nil, fmt.Errorf("cannot flatten %T as %s", v, t)
}

func (e *Engine) funcIdent(f FuncV) *Term {
	if f.Opaque != nil {
		return f.Opaque
	}
	if f.Fn != nil {
		k := "fn:" + f.Fn.String()
		id, ok := e.fnIDs[k]
		if !ok {
			id = len(e.fnIDs) + 1
			e.fnIDs[k] = id
		}
		if len(f.Bind) == 0 {
			return e.C.IntC(int64(id))
		}
		return e.C.Fresh("closure", Int)
	}
	return e.C.IntC(0)
}

// ptrFromRef interprets a stored reference as a pointer of static type t.
func (e *Engine) ptrFromRef(r *Term, t types.Type) PtrV {
	pt, ok := t.Underlying().(*types.Pointer)
	if !ok {
		return PtrV{Kind: PBox, Ref: r, T: t}
	}
	el := pt.Elem()
	if structOf(el) != nil {
		return PtrV{Kind: PObj, Ref: r, T: el}
	}
	if _, ok := el.Underlying().(*types.Array); ok {
		return PtrV{Kind: PArr, Arr: r, T: el}
	}
	return PtrV{Kind: PBox, Ref: r, T: el}
}

func (e *Engine) refOfPtr(p PtrV) (*Term, error) {
	switch p.Kind {
	case PObj, PBox:
		return p.Ref, nil
	case PArr:
		return p.Arr, nil
	}
	return nil, fmt.Errorf("pointer of kind %d has no storable reference (pointee %s)", p.Kind, p.T)
}

func (e *Engine) rangeFact(t *Term, typ types.Type) {
	if t.Sort != Int || t.Op == "int" {
		return
	}
	if lo, hi, ok := intRange(typ); ok {
		t.AddFact(e.C.And(e.C.Le(e.C.IntB(lo), t), e.C.Le(t, e.C.IntB(hi))))
		return
	}
	switch repOf(typ) {
	case RMap, RChan:
		t.AddFact(e.C.Le(e.C.IntC(0), t))
	}
}

var maxCap = new(big.Int).Lsh(big.NewInt(1), 47)  // largest allocation make accepts (bytes)
var maxElems = new(big.Int).Lsh(big.NewInt(1), 40) // no existing slice has more elements than this

func (e *Engine) sliceFacts(v SliceV) {
	c := e.C
	z := c.IntC(0)
	f := c.And(c.Le(z, v.Arr), c.Le(z, v.Off), c.Le(z, v.Len), c.Le(v.Len, v.Cap), c.Le(c.Add(v.Off, v.Cap), c.IntB(maxElems)),
		c.Implies(c.Eq(v.Arr, z), c.And(c.Eq(v.Cap, z), c.Eq(v.Off, z))))
	if f.IsTrue() {
		return
	}
	for _, t := range []*Term{v.Len, v.Cap, v.Arr, v.Off} {
		if !t.IsConst() {
			t.AddFact(f)
			return
		}
	}
}

// ---- typed load / store ----

func (e *Engine) load(s *State, p PtrV) Value {
	c := e.C
	switch p.Kind {
	case PObj:
		st := structOf(p.T)
		if st == nil {
			return PoisonV{"PObj of non-struct " + p.T.String()}
		}
		out := StructV{F: make([]Value, st.NumFields())}
		for i := 0; i < st.NumFields(); i++ {
			out.F[i] = e.load(s, e.fieldAddr(p, i))
		}
		return out
	case PLeaf:
		if strings.HasPrefix(p.Key, "global:") && isErrorType(p.T) {
			// sentinel error variables: immutable, non-nil, pairwise distinct
			return IfaceV{Tag: e.errorTag(), Box: e.globalRef("errval:" + p.Key)}
		}
		ls := e.leavesOf(p.T)
		if ls == nil {
			return PoisonV{"load leaf of " + p.T.String()}
		}
		ts := make([]*Term, len(ls))
		for i, l := range ls {
			h := e.heapGet(s, p.Key+l.comp, Array(Int, l.sort))
			ts[i] = c.Select(h, p.Ref)
		}
		if p.Idx != nil { // element of an array-typed leaf
			at := p.T.Underlying().(*types.Array)
			v := c.Select(ts[0], p.Idx)
			return e.fromLeaves(at.Elem(), []*Term{v}, s)
		}
		return e.fromLeaves(p.T, ts, s)
	case PBox:
		if structOf(p.T) != nil {
			return e.load(s, PtrV{Kind: PObj, Ref: p.Ref, T: p.T})
		}
		ls := e.leavesOf(p.T)
		if ls == nil {
			return PoisonV{"load box of " + p.T.String()}
		}
		ts := make([]*Term, len(ls))
		for i, l := range ls {
			h := e.heapGet(s, boxKey(p.T)+l.comp, Array(Int, l.sort))
			ts[i] = c.Select(h, p.Ref)
		}
		return e.fromLeaves(p.T, ts, s)
	case PElem:
		if structOf(p.T) != nil {
			return e.load(s, e.elemObj(p.Arr, p.Idx, p.T))
		}
		ls := e.leavesOf(p.T)
		if ls == nil {
			return PoisonV{"load elem of " + p.T.String()}
		}
		ts := make([]*Term, len(ls))
		for i, l := range ls {
			h := e.heapGet(s, p.elemKeyOf()+l.comp, Array(Int, Array(Int, l.sort)))
			ts[i] = c.Select(c.Select(h, p.Arr), p.Idx)
		}
		return e.fromLeaves(p.T, ts, s)
	case PElemObj:
		st := structOf(p.T)
		out := StructV{F: make([]Value, st.NumFields())}
		for i := 0; i < st.NumFields(); i++ {
			out.F[i] = e.load(s, e.fieldAddr(p, i))
		}
		return out
	case PArr:
		at := p.T.Underlying().(*types.Array)
		es := e.leavesOf(at.Elem())
		if len(es) != 1 {
			return PoisonV{"load array of " + at.Elem().String()}
		}
		h := e.heapGet(s, elemKey(at.Elem())+es[0].comp, Array(Int, Array(Int, es[0].sort)))
		return ArrayV{A: c.Select(h, p.Arr)}
	case PCell:
		v, ok := s.cells[p.Cell]
		if !ok {
			v = e.zero(p.Cell.T)
		}
		return e.pathGet(v, p.Cell.T, p.Path)
	}
	return PoisonV{"load"}
}

func (e *Engine) store(s *State, p PtrV, v Value) error {
	c := e.C
	if pv, ok := v.(PoisonV); ok {
		if p.Kind == PCell && len(p.Path) == 0 {
			s.cells[p.Cell] = pv
			return nil
		}
		return fmt.Errorf("store of unsupported value: %s", pv.Why)
	}
	switch p.Kind {
	case PObj:
		st := structOf(p.T)
		sv, ok := v.(StructV)
		if !ok || st == nil {
			return fmt.Errorf("store struct: got %T for %s", v, p.T)
		}
		for i := 0; i < st.NumFields(); i++ {
			if err := e.store(s, e.fieldAddr(p, i), sv.F[i]); err != nil {
				return err
			}
		}
		return nil
	case PLeaf:
		if p.Idx != nil {
			at := p.T.Underlying().(*types.Array)
			ts, err := e.toLeaves(at.Elem(), v)
			if err != nil {
				return err
			}
			ls := e.leavesOf(p.T)
			key := p.Key + ls[0].comp
			h := e.heapGet(s, key, Array(Int, ls[0].sort))
			e.noteWrite(s, key, wtarget{kind: wRef, ref: p.Ref})
			e.heapSet(s, key, c.Store(h, p.Ref, c.Store(c.Select(h, p.Ref), p.Idx, ts[0])))
			return nil
		}
		ts, err := e.toLeaves(p.T, v)
		if err != nil {
			return err
		}
		for i, l := range e.leavesOf(p.T) {
			key := p.Key + l.comp
			h := e.heapGet(s, key, Array(Int, l.sort))
			e.noteWrite(s, key, wtarget{kind: wRef, ref: p.Ref})
			e.heapSet(s, key, c.Store(h, p.Ref, ts[i]))
		}
		return nil
	case PBox:
		if structOf(p.T) != nil {
			return e.store(s, PtrV{Kind: PObj, Ref: p.Ref, T: p.T}, v)
		}
		ts, err := e.toLeaves(p.T, v)
		if err != nil {
			return err
		}
		for i, l := range e.leavesOf(p.T) {
			key := boxKey(p.T) + l.comp
			h := e.heapGet(s, key, Array(Int, l.sort))
			e.noteWrite(s, key, wtarget{kind: wRef, ref: p.Ref})
			e.heapSet(s, key, c.Store(h, p.Ref, ts[i]))
		}
		return nil
	case PElemObj:
		st := structOf(p.T)
		sv, ok := v.(StructV)
		if !ok || st == nil {
			return fmt.Errorf("store struct element: got %T for %s", v, p.T)
		}
		for i := 0; i < st.NumFields(); i++ {
			if err := e.store(s, e.fieldAddr(p, i), sv.F[i]); err != nil {
				return err
			}
		}
		return nil
	case PElem:
		if structOf(p.T) != nil {
			return e.store(s, e.elemObj(p.Arr, p.Idx, p.T), v)
		}
		ts, err := e.toLeaves(p.T, v)
		if err != nil {
			return err
		}
		for i, l := range e.leavesOf(p.T) {
			key := p.elemKeyOf() + l.comp
			h := e.heapGet(s, key, Array(Int, Array(Int, l.sort)))
			e.noteWrite(s, key, wtarget{kind: wRow, arr: p.Arr, lo: p.Idx, n: c.IntC(1)})
			e.heapSet(s, key, c.Store(h, p.Arr, c.Store(c.Select(h, p.Arr), p.Idx, ts[i])))
		}
		return nil
	case PArr:
		at := p.T.Underlying().(*types.Array)
		es := e.leavesOf(at.Elem())
		av, ok := v.(ArrayV)
		if len(es) != 1 || !ok || av.A == nil {
			return fmt.Errorf("store array of %s", at.Elem())
		}
		key := elemKey(at.Elem()) + es[0].comp
		h := e.heapGet(s, key, Array(Int, Array(Int, es[0].sort)))
		e.noteWrite(s, key, wtarget{kind: wRow, arr: p.Arr, lo: c.IntC(0), n: c.IntC(at.Len())})
		e.heapSet(s, key, c.Store(h, p.Arr, av.A))
		return nil
	case PCell:
		cur, ok := s.cells[p.Cell]
		if !ok {
			cur = e.zero(p.Cell.T)
		}
		nv, err := e.pathSet(cur, p.Cell.T, p.Path, v)
		if err != nil {
			return err
		}
		s.cells[p.Cell] = nv
		return nil
	}
	return fmt.Errorf("store through pointer kind %d", p.Kind)
}

// elemObj is the address of the struct that is element idx of backing array arr.
// Struct elements live in two-level heaps "E:<type>.<field path>"[arr][idx],
// exactly like scalar elements, so that copying and growing slices of structs
// are row operations.
func (e *Engine) elemObj(arr, idx *Term, t types.Type) PtrV {
	return PtrV{Kind: PElemObj, Arr: arr, Idx: idx, T: t, Key: "E:" + typeKey(t)}
}

func (p PtrV) elemKeyOf() string {
	if p.Key != "" {
		return p.Key
	}
	return elemKey(p.T)
}

func (e *Engine) subRef(t types.Type, i int, ref *Term) *Term {
	name := "sub:" + fieldKey(t, i)
	c := e.C
	e.subNames[Sanitize(name)] = fieldKey(t, i)
	if !e.subAx[name] {
		e.subAx[name] = true
		r := c.BoundVar("r", Int)
		sr := c.App(name, Int, r)
		body := c.And(c.Eq(c.App("parent:"+fieldKey(t, i), Int, sr), r), c.Implies(c.Lt(c.IntC(0), r), c.Lt(c.IntC(0), sr)), c.Eq(e.rootOf(sr), e.rootOf(r)))
		c.AddAxiom(name, []string{name}, c.Quant("forall", []*Term{r}, body, [][]*Term{{sr}}))
	}
	return c.App(name, Int, ref)
}

// fieldAddr computes the address of field i of the struct p points to.
func (e *Engine) fieldAddr(p PtrV, i int) PtrV {
	st := structOf(p.T)
	ft := st.Field(i).Type()
	switch p.Kind {
	case PObj, PBox:
		if structOf(ft) != nil {
			return PtrV{Kind: PObj, Ref: e.subRef(p.T, i, p.Ref), T: ft}
		}
		return PtrV{Kind: PLeaf, Key: fieldKey(p.T, i), Ref: p.Ref, T: ft}
	case PCell:
		np := p
		np.Path = append(append([]Sel(nil), p.Path...), Sel{Field: i})
		np.T = ft
		return np
	case PElem:
		return e.fieldAddr(e.elemObj(p.Arr, p.Idx, p.T), i)
	case PElemObj:
		key := p.Key + "." + st.Field(i).Name()
		if structOf(ft) != nil {
			return PtrV{Kind: PElemObj, Arr: p.Arr, Idx: p.Idx, T: ft, Key: key}
		}
		return PtrV{Kind: PElem, Arr: p.Arr, Idx: p.Idx, T: ft, Key: key}
	}
	return PtrV{Kind: PCell, T: ft, Cell: &Cell{Name: "bad", T: ft}}
}

func (e *Engine) pathGet(v Value, t types.Type, path []Sel) Value {
	if len(path) == 0 {
		return v
	}
	if pv, ok := v.(PoisonV); ok {
		return pv
	}
	sel := path[0]
	if sel.Index != nil {
		at, _ := t.Underlying().(*types.Array)
		av, ok := v.(ArrayV)
		if !ok || at == nil {
			return PoisonV{"pathGet index"}
		}
		if av.A != nil {
			return e.pathGet(e.fromLeaves(at.Elem(), []*Term{e.C.Select(av.A, sel.Index)}, nil), at.Elem(), path[1:])
		}
		// Go-side element list: build ite chain
		var out Value
		for k := len(av.Elems) - 1; k >= 0; k-- {
			ev := e.pathGet(av.Elems[k], at.Elem(), path[1:])
			if out == nil {
				out = ev
			} else {
				out = e.mergeVal(e.C.Eq(sel.Index, e.C.IntC(int64(k))), ev, out)
			}
		}
		if out == nil {
			return PoisonV{"empty array"}
		}
		return out
	}
	st := structOf(t)
	sv, ok := v.(StructV)
	if !ok || st == nil {
		return PoisonV{fmt.Sprintf("pathGet field of %T", v)}
	}
	return e.pathGet(sv.F[sel.Field], st.Field(sel.Field).Type(), path[1:])
}

func (e *Engine) pathSet(cur Value, t types.Type, path []Sel, v Value) (Value, error) {
	if len(path) == 0 {
		return v, nil
	}
	sel := path[0]
	if sel.Index != nil {
		at, _ := t.Underlying().(*types.Array)
		av, ok := cur.(ArrayV)
		if !ok || at == nil {
			return nil, fmt.Errorf("pathSet index into %T", cur)
		}
		if av.A != nil {
			if len(path) != 1 {
				return nil, fmt.Errorf("pathSet below scalar array")
			}
			ts, err := e.toLeaves(at.Elem(), v)
			if err != nil {
				return nil, err
			}
			return ArrayV{A: e.C.Store(av.A, sel.Index, ts[0])}, nil
		}
		n := ArrayV{Elems: append([]Value(nil), av.Elems...)}
		for k := range n.Elems {
			nv, err := e.pathSet(n.Elems[k], at.Elem(), path[1:], v)
			if err != nil {
				return nil, err
			}
			n.Elems[k] = e.mergeVal(e.C.Eq(sel.Index, e.C.IntC(int64(k))), nv, n.Elems[k])
		}
		return n, nil
	}
	st := structOf(t)
	sv, ok := cur.(StructV)
	if !ok || st == nil {
		return nil, fmt.Errorf("pathSet field of %T", cur)
	}
	n := StructV{F: append([]Value(nil), sv.F...)}
	nv, err := e.pathSet(n.F[sel.Field], st.Field(sel.Field).Type(), path[1:], v)
	if err != nil {
		return nil, err
	}
	n.F[sel.Field] = nv
	return n, nil
}

// ---- zero and fresh values ----

func (e *Engine) zero(t types.Type) Value {
	c := e.C
	switch repOf(t) {
	case RBool:
		return c.False()
	case RInt, RMap, RChan:
		return c.IntC(0)
	case RByte:
		return c.BVC(0)
	case RStr:
		return e.strLit("")
	case RFlt:
		return c.App("flt.const", Flt, e.strLit("0"))
	case RPtr:
		return e.ptrFromRef(c.IntC(0), t)
	case RSlice:
		z := c.IntC(0)
		return SliceV{z, z, z, z}
	case RIface:
		return IfaceV{Tag: c.IntC(0), Box: c.IntC(0)}
	case RFunc:
		return FuncV{Opaque: c.IntC(0)}
	case RStruct:
		st := structOf(t)
		out := StructV{F: make([]Value, st.NumFields())}
		for i := range out.F {
			out.F[i] = e.zero(st.Field(i).Type())
		}
		return out
	case RArray:
		at := t.Underlying().(*types.Array)
		if es := sortOfScalar(at.Elem()); es != nil {
			zv, _ := e.zero(at.Elem()).(*Term)
			return ArrayV{A: c.ConstArr(Array(Int, es), zv)}
		}
		if repOf(at.Elem()) == RPtr {
			return ArrayV{A: c.ConstArr(Array(Int, Int), c.IntC(0))}
		}
		if at.Len() <= 64 {
			out := ArrayV{Elems: make([]Value, at.Len())}
			for i := range out.Elems {
				out.Elems[i] = e.zero(at.Elem())
			}
			return out
		}
	case RTuple:
		tt := t.(*types.Tuple)
		out := make(TupleV, tt.Len())
		for i := range out {
			out[i] = e.zero(tt.At(i).Type())
		}
		return out
	}
	return PoisonV{"zero of " + t.String()}
}

// fresh returns an arbitrary well-typed value. next bounds references.
func (e *Engine) fresh(t types.Type, name string, s *State) Value {
	c := e.C
	switch repOf(t) {
	case RBool, RInt, RByte, RStr, RFlt, RMap, RChan:
		v := c.Fresh(name, sortOfScalar(t))
		e.rangeFact(v, t)
		if repOf(t) == RStr {
			v.AddFact(c.Le(c.IntC(0), e.strLen(v)))
		}
		e.refFact(v, t, s)
		return v
	case RPtr:
		r := c.Fresh(name, Int)
		r.AddFact(c.Le(c.IntC(0), r))
		e.refBound(r, s)
		return e.ptrFromRef(r, t)
	case RSlice:
		v := SliceV{c.Fresh(name+"#arr", Int), c.Fresh(name+"#off", Int), c.Fresh(name+"#len", Int), c.Fresh(name+"#cap", Int)}
		e.sliceFacts(v)
		e.refBound(v.Arr, s)
		return v
	case RIface:
		v := IfaceV{Tag: c.Fresh(name+"#tag", Int), Box: c.Fresh(name+"#box", Int)}
		v.Tag.AddFact(c.And(c.Le(c.IntC(0), v.Tag), c.Implies(c.Eq(v.Tag, c.IntC(0)), c.Eq(v.Box, c.IntC(0)))))
		v.Box.AddFact(c.Le(c.IntC(0), v.Box))
		e.refBound(v.Box, s)
		return v
	case RFunc:
		return FuncV{Opaque: c.Fresh(name+"#fn", Int)}
	case RStruct:
		st := structOf(t)
		out := StructV{F: make([]Value, st.NumFields())}
		for i := range out.F {
			out.F[i] = e.fresh(st.Field(i).Type(), name+"."+st.Field(i).Name(), s)
		}
		return out
	case RArray:
		at := t.Underlying().(*types.Array)
		if es := sortOfScalar(at.Elem()); es != nil {
			return ArrayV{A: c.Fresh(name, Array(Int, es))}
		}
		if repOf(at.Elem()) == RPtr {
			return ArrayV{A: c.Fresh(name, Array(Int, Int))}
		}
		if at.Len() <= 64 {
			out := ArrayV{Elems: make([]Value, at.Len())}
			for i := range out.Elems {
				out.Elems[i] = e.fresh(at.Elem(), fmt.Sprintf("%s[%d]", name, i), s)
			}
			return out
		}
	case RTuple:
		tt := t.(*types.Tuple)
		out := make(TupleV, tt.Len())
		for i := range out {
			out[i] = e.fresh(tt.At(i).Type(), fmt.Sprintf("%s.%d", name, i), s)
		}
		return out
	}
	return PoisonV{"fresh of " + t.String()}
}

func (e *Engine) refFact(v *Term, t types.Type, s *State) {
	switch repOf(t) {
	case RMap, RChan:
		e.refBound(v, s)
	}
}

// refBound records that reference r existed before the current allocation point.
func (e *Engine) refBound(r *Term, s *State) {
	if s != nil && s.next != nil && !r.IsConst() {
		r.AddFact(e.C.Lt(e.rootOf(r), s.next))
	}
}

// newRef allocates a fresh reference.
func (e *Engine) newRef(s *State, name string) *Term {
	c := e.C
	r := c.Fresh(name, Int)
	r.AddFact(c.And(c.Le(s.next, r), c.Lt(c.IntC(0), r), c.Eq(e.rootOf(r), r)))
	s.next = c.Add(r, c.IntC(1))
	e.freshRefs[r] = true
	return r
}

// isFreshTerm: t is (an element or sub-object of) a reference allocated by the
// function being verified -- known syntactically, no obligation needed.
func (e *Engine) isFreshTerm(t *Term) bool {
	for t != nil {
		if e.freshRefs[t] {
			return true
		}
		if t.Op == "app" && strings.HasPrefix(t.Name, "sub:") {
			t = t.Args[0]
			continue
		}
		return false
	}
	return false
}

// rootOf is the allocation unit an address belongs to: elements of arrays and
// embedded structs have the root of their container.
func (e *Engine) rootOf(r *Term) *Term {
	return e.C.App("root", Int, r)
}

// ---- merging ----

func (e *Engine) mergeVal(g *Term, a, b Value) Value {
	c := e.C
	if g.IsTrue() {
		return a
	}
	if g.IsFalse() {
		return b
	}
	switch x := a.(type) {
	case *Term:
		if y, ok := b.(*Term); ok && x.Sort == y.Sort {
			return c.Ite(g, x, y)
		}
	case SliceV:
		if y, ok := b.(SliceV); ok {
			return SliceV{c.Ite(g, x.Arr, y.Arr), c.Ite(g, x.Off, y.Off), c.Ite(g, x.Len, y.Len), c.Ite(g, x.Cap, y.Cap)}
		}
	case IfaceV:
		if y, ok := b.(IfaceV); ok {
			if x.Ptr != nil || y.Ptr != nil {
				if x.Ptr != nil && y.Ptr != nil && valueEq(*x.Ptr, *y.Ptr) {
					return IfaceV{c.Ite(g, x.Tag, y.Tag), c.Ite(g, x.Box, y.Box), x.Ptr}
				}
				return PoisonV{"merge of interfaces holding pointers to locals"}
			}
			return IfaceV{Tag: c.Ite(g, x.Tag, y.Tag), Box: c.Ite(g, x.Box, y.Box)}
		}
	case StructV:
		if y, ok := b.(StructV); ok && len(x.F) == len(y.F) {
			out := StructV{F: make([]Value, len(x.F))}
			for i := range x.F {
				out.F[i] = e.mergeVal(g, x.F[i], y.F[i])
			}
			return out
		}
	case ArrayV:
		if y, ok := b.(ArrayV); ok {
			if x.A != nil && y.A != nil {
				return ArrayV{A: c.Ite(g, x.A, y.A)}
			}
			if len(x.Elems) == len(y.Elems) && x.A == nil && y.A == nil {
				out := ArrayV{Elems: make([]Value, len(x.Elems))}
				for i := range x.Elems {
					out.Elems[i] = e.mergeVal(g, x.Elems[i], y.Elems[i])
				}
				return out
			}
		}
	case TupleV:
		if y, ok := b.(TupleV); ok && len(x) == len(y) {
			out := make(TupleV, len(x))
			for i := range x {
				out[i] = e.mergeVal(g, x[i], y[i])
			}
			return out
		}
	case PtrV:
		if y, ok := b.(PtrV); ok {
			if x.Kind == y.Kind {
				switch x.Kind {
				case PObj, PBox:
					if types.Identical(x.T, y.T) {
						return PtrV{Kind: x.Kind, Ref: c.Ite(g, x.Ref, y.Ref), T: x.T}
					}
				case PLeaf:
					if x.Key == y.Key && (x.Idx == nil) == (y.Idx == nil) {
						r := PtrV{Kind: PLeaf, Key: x.Key, Ref: c.Ite(g, x.Ref, y.Ref), T: x.T}
						if x.Idx != nil {
							r.Idx = c.Ite(g, x.Idx, y.Idx)
						}
						return r
					}
				case PElem, PElemObj:
					if types.Identical(x.T, y.T) && x.Key == y.Key {
						return PtrV{Kind: x.Kind, Arr: c.Ite(g, x.Arr, y.Arr), Idx: c.Ite(g, x.Idx, y.Idx), T: x.T, Key: x.Key}
					}
				case PArr:
					return PtrV{Kind: PArr, Arr: c.Ite(g, x.Arr, y.Arr), T: x.T}
				case PCell:
					if x.Cell == y.Cell && len(x.Path) == len(y.Path) {
						same := true
						np := make([]Sel, len(x.Path))
						for i := range x.Path {
							if x.Path[i].Field != y.Path[i].Field || (x.Path[i].Index == nil) != (y.Path[i].Index == nil) {
								same = false
								break
							}
							np[i] = x.Path[i]
							if x.Path[i].Index != nil {
								np[i].Index = c.Ite(g, x.Path[i].Index, y.Path[i].Index)
							}
						}
						if same {
							return PtrV{Kind: PCell, Cell: x.Cell, Path: np, T: x.T}
						}
					}
				}
			}
			// nil (PObj/PBox with ref 0) merged with a Go-side pointer: keep the
			// Go-side one; dereferencing is guarded by the nil check obligations
			// that were raised where each was created.
			return PoisonV{"merge of different pointer shapes"}
		}
	case FuncV:
		if y, ok := b.(FuncV); ok {
			if x.Fn == y.Fn && x.Fn != nil && len(x.Bind) == len(y.Bind) {
				out := FuncV{Fn: x.Fn, Bind: make([]Value, len(x.Bind))}
				for i := range x.Bind {
					out.Bind[i] = e.mergeVal(g, x.Bind[i], y.Bind[i])
				}
				return out
			}
			if x.Fn == nil && y.Fn == nil {
				return FuncV{Opaque: c.Ite(g, x.Opaque, y.Opaque)}
			}
			return FuncV{Opaque: c.Ite(g, e.funcIdent(x), e.funcIdent(y))}
		}
	case PoisonV:
		return x
	}
	if p, ok := b.(PoisonV); ok {
		return p
	}
	return PoisonV{fmt.Sprintf("merge %T with %T", a, b)}
}

// mergeStates merges b into a under guard g (g selects a).  pcs are or-ed.
func (e *Engine) mergeStates(ga *Term, a *State, gb *Term, b *State) *State {
	c := e.C
	out := &State{}
	out.pc = e.orFactored(a.pc, b.pc)
	// selector: a's pc distinguishes (paths are disjoint by construction)
	g := e.selector(a.pc, b.pc)
	_ = ga
	_ = gb
	out.cells = map[*Cell]Value{}
	for _, k := range sortedCells(a.cells, b.cells) {
		va, oka := a.cells[k]
		vb, okb := b.cells[k]
		switch {
		case oka && okb:
			out.cells[k] = e.mergeVal(g, va, vb)
		case oka:
			out.cells[k] = va
		default:
			out.cells[k] = vb
		}
	}
	out.heap = map[string]*Term{}
	for _, k := range sortedStateKeys(a.heap, b.heap) {
		so := e.heapSorts[k]
		ta, tb := e.heapGet(a, k, so), e.heapGet(b, k, so)
		out.heap[k] = c.Ite(g, ta, tb)
	}
	// wholesale havocs: common history kept; if the histories differ, known
	// keys whose base differs are merged explicitly and keys not read so far
	// by anybody become arbitrary (a fresh record per differing prefix)
	{
		n := 0
		for n < len(a.havocs) && n < len(b.havocs) && a.havocs[n].id == b.havocs[n].id {
			n++
		}
		out.havocs = a.havocs[:n:n]
		if n < len(a.havocs) || n < len(b.havocs) {
			for _, k := range sortedSortKeys(e.heapSorts) {
				if _, ok := out.heap[k]; ok {
					continue
				}
				so := e.heapSorts[k]
				ta, tb := e.heapBase(a, k, so), e.heapBase(b, k, so)
				if ta != tb {
					out.heap[k] = c.Ite(g, ta, tb)
				}
			}
			seenP := map[string]bool{}
			for _, tail := range [][]havocRec{a.havocs[n:], b.havocs[n:]} {
				for _, h := range tail {
					pk := h.prefix
					if h.all {
						pk = "\x00all"
					}
					if !seenP[pk] {
						seenP[pk] = true
						e.addHavoc(out, h.prefix, h.all)
					}
				}
			}
		}
	}
	out.next = c.Ite(g, a.next, b.next)
	out.alloc = c.Ite(g, a.alloc, b.alloc)
	// defers: union by identity with merged guards
	seen := map[*deferRec]bool{}
	idx := map[string]*deferRec{}
	_ = idx
	for _, d := range a.defers {
		seen[d] = true
		found := false
		for _, d2 := range b.defers {
			if d2.call != nil && d == d2 {
				found = true
			}
		}
		if found {
			out.defers = append(out.defers, d)
		} else {
			out.defers = append(out.defers, &deferRec{guard: c.And(a.pc, d.guard), call: d.call})
		}
	}
	for _, d := range b.defers {
		if !seen[d] {
			out.defers = append(out.defers, &deferRec{guard: c.And(b.pc, d.guard), call: d.call})
		}
	}
	out.held = map[string]*Term{}
	for _, k := range sortedStateKeys(a.held, b.held) {
		va, oka := a.held[k]
		vb, okb := b.held[k]
		if !oka {
			va = c.False()
		}
		if !okb {
			vb = c.False()
		}
		out.held[k] = c.Ite(g, va, vb)
	}
	out.owners = map[string]PtrV{}
	for k, v := range b.owners {
		out.owners[k] = v
	}
	for k, v := range a.owners {
		out.owners[k] = v
	}
	out.snap = map[string]*State{}
	for k, v := range a.snap {
		out.snap[k] = v
	}
	for k, v := range b.snap {
		if av, ok := out.snap[k]; !ok {
			out.snap[k] = v
		} else if av != v {
			// the two paths took their snapshots at different points: a two-state
			// clause evaluated against either would be wrong for the other
			out.snap[k] = nil
		}
	}
	return out
}

func sortedKeys(m map[string]*Term) []string {
	var ks []string
	for k := range m {
		ks = append(ks, k)
	}
	sort.Strings(ks)
	return ks
}

// ---- strings ----

func (e *Engine) strLit(s string) *Term {
	c := e.C
	if t, ok := e.strLits[s]; ok {
		return t
	}
	id := len(e.strLits)
	t := c.Const(fmt.Sprintf("str!%d", id), Str)
	e.strLits[s] = t
	e.strLitVals[t] = s
	// facts: length, id, characters for short literals
	fs := []*Term{c.Eq(c.App("s.len", Int, t), c.IntC(int64(len(s)))), c.Eq(c.App("s.id", Int, t), c.IntC(int64(id)))}
	// a literal of the program is safe to emit (see the spec builtin safe_)
	fs = append(fs, c.App("s.safe", Bool, t))
	if len(s) <= 32 {
		for i := 0; i < len(s); i++ {
			fs = append(fs, c.Eq(c.App("s.at", BV8, t, c.IntC(int64(i))), c.BVC(int64(s[i]))))
		}
	}
	t.AddFact(c.And(fs...))
	return t
}

func (e *Engine) strLen(s *Term) *Term {
	if v, ok := e.strLitVals[s]; ok {
		return e.C.IntC(int64(len(v)))
	}
	l := e.C.App("s.len", Int, s)
	l.AddFact(e.C.Le(e.C.IntC(0), l))
	return l
}

func isErrorType(t types.Type) bool {
	n, ok := t.(*types.Named)
	return ok && n.Obj().Pkg() == nil && n.Obj().Name() == "error"
}

// ---- write tracking for frame obligations ----

type wkind int

const (
	wRef wkind = iota // first-level index ref
	wRow              // elements [lo, lo+n) of backing array arr
	wAll              // anything
)

type wtarget struct {
	kind    wkind
	ref     *Term
	arr     *Term
	lo, n   *Term
}

func (e *Engine) noteWrite(s *State, key string, w wtarget) {
	if e.cur != nil && e.dry == 0 {
		e.cur.noteWrite(s, key, w)
	}
}

func sortedStateKeys(ms ...map[string]*Term) []string {
	seen := map[string]bool{}
	var ks []string
	for _, m := range ms {
		for k := range m {
			if !seen[k] {
				seen[k] = true
				ks = append(ks, k)
			}
		}
	}
	sort.Strings(ks)
	return ks
}

func sortedSortKeys(m map[string]*Sort) []string {
	var ks []string
	for k := range m {
		ks = append(ks, k)
	}
	sort.Strings(ks)
	return ks
}

func sortedCells(ms ...map[*Cell]Value) []*Cell {
	seen := map[*Cell]bool{}
	var cs []*Cell
	for _, m := range ms {
		for c := range m {
			if !seen[c] {
				seen[c] = true
				cs = append(cs, c)
			}
		}
	}
	sort.Slice(cs, func(i, j int) bool { return cs[i].ID < cs[j].ID })
	return cs
}
