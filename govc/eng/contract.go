package eng

import (
	"fmt"
	"os"
	"path/filepath"
	"regexp"
	"sort"
	"strconv"
	"strings"
)

// A Clause is one line (plus continuations) of a contract block.
type Clause struct {
	Kind  string // requires ensures invariant decreases modifies ...
	Label string
	Text  string
	File  string
	Line  int
}

type LoopSpec struct {
	Ordinal int
	Clauses []*Clause
}

// Block is one //@ block: func, spec, monitor, extern, lemma.
type Block struct {
	Kind    string // func spec monitor extern lemma ghost
	Name    string // "(*Pieces).ReadAt", "Read", "Expire$1"
	Pkg     string // import path of the package the block belongs to
	Clauses []*Clause
	Loops   map[int]*LoopSpec
	Props   []string
	Flags   map[string]string
	File    string
	Line    int
	Header  string // rest of the header line
	Extern  bool   // from /verif/externs (assumed, never verified)
}

func (b *Block) Of(kind string) []*Clause {
	var out []*Clause
	for _, c := range b.Clauses {
		if c.Kind == kind {
			out = append(out, c)
		}
	}
	return out
}

func (b *Block) Has(flag string) bool {
	_, ok := b.Flags[flag]
	return ok
}

var clauseKinds = map[string]bool{
	"requires": true, "ensures": true, "exit": true, "focus": true, "waitsfor": true, "splitreturn": true, "invariant": true, "decreases": true,
	"modifies": true, "props": true, "nopanic": true, "pure": true, "inline": true,
	"let": true, "alloc": true, "assume": true, "assert": true, "havoc": true,
	"trusted": true, "unroll": true, "callback": true, "protects": true,
	"guarantee": true, "ghost": true, "noinline": true, "body": true,
	"import": true, "maypanic": true, "opaque": true, "holds": true, "locked": true,
	"reads": true, "fresh": true, "atcall": true, "unreachable": true, "emits": true,
	"returns": true, "use": true, "axiom": true, "induction": true, "params": true,
	"terminates": true, "field": true, "sig": true, "group": true, "noalloc": true, "deadcode": true, "replay": true, "witness": true, "lockset": true, "rely": true, "relocks": true, "ghostvar": true, "ghostinit": true, "waive": true, "assertcall": true, "lockkey": true, "noreturn": true, "effect": true, "noframe": true, "instconsts": true, "opaquefn": true, "onlyfor": true,
}

var blockKinds = map[string]bool{"func": true, "spec": true, "monitor": true, "extern": true, "lemma": true, "type": true, "actor": true}

var labelRe = regexp.MustCompile(`^\[([A-Za-z0-9_.:-]+)\]\s*`)

// ParseContractFile reads //@ lines of one file.
func ParseContractFile(path, pkg string, extern bool) ([]*Block, error) {
	data, err := os.ReadFile(path)
	if err != nil {
		return nil, err
	}
	return ParseContractText(string(data), path, pkg, extern)
}

func ParseContractText(text, path, pkg string, extern bool) ([]*Block, error) {
	var blocks []*Block
	var cur *Block
	var curLoop *LoopSpec
	var last *Clause
	for i, line := range strings.Split(text, "\n") {
		t := strings.TrimSpace(line)
		if !strings.HasPrefix(t, "//@") {
			if strings.HasPrefix(t, "//") || t == "" {
				continue
			}
			// code line: ends continuation
			last = nil
			continue
		}
		body := strings.TrimSpace(t[3:])
		// strip trailing comment introduced by " // "
		if k := strings.Index(body, " // "); k >= 0 {
			body = strings.TrimSpace(body[:k])
		}
		if body == "" {
			continue
		}
		word := body
		rest := ""
		if k := strings.IndexAny(body, " \t"); k >= 0 {
			word = body[:k]
			rest = strings.TrimSpace(body[k:])
		}
		if word == "opaque" {
			// "opaque <specfn> ...": in the functions of THIS package the named spec
			// functions are not unfolded (uninterpreted symbols): facts about them
			// come only from contracts proved where the definition is visible
			blocks = append(blocks, &Block{Kind: "opaque", Pkg: pkg, Header: rest, Loops: map[int]*LoopSpec{}, Flags: map[string]string{}, File: path, Line: i + 1, Extern: extern})
			cur = nil
			last = nil
			continue
		}
		if word == "ghostcode" || word == "ghostimport" {
			// "ghostcode <one line of Go>": ghost (proof-only) code of this package,
			// compiled only into the verifier's in-memory overlay: lemma functions
			// whose bodies call the functions under contract and whose own contract
			// is the lemma. "ghostimport "path"": an import that code needs.
			raw := strings.TrimPrefix(strings.TrimSpace(t[3:]), word)
			if word == "ghostcode" && len(raw) > 0 {
				raw = raw[1:] // keep indentation after the single separating blank
			}
			blocks = append(blocks, &Block{Kind: word, Pkg: pkg, Header: strings.TrimRight(raw, " \t"), Loops: map[int]*LoopSpec{}, Flags: map[string]string{}, File: path, Line: i + 1, Extern: extern})
			cur = nil
			last = nil
			continue
		}
		if word == "final" {
			// "final <heap key>": the field is assigned only where its struct is
			// created (checked over the SSA of the whole repository: obligation
			// kind "final"), so no call and no loop changes it
			blocks = append(blocks, &Block{Kind: "final", Pkg: pkg, Header: rest, Loops: map[int]*LoopSpec{}, Flags: map[string]string{}, File: path, Line: i + 1, Extern: extern})
			cur = nil
			last = nil
			continue
		}
		if word == "use" {
			blocks = append(blocks, &Block{Kind: "use", Pkg: pkg, Header: rest, Loops: map[int]*LoopSpec{}, Flags: map[string]string{}, File: path, Line: i + 1, Extern: extern})
			cur = nil
			last = nil
			continue
		}
		if blockKinds[word] {
			cur = &Block{Kind: word, Pkg: pkg, Loops: map[int]*LoopSpec{}, Flags: map[string]string{}, File: path, Line: i + 1, Extern: extern}
			// name = rest up to first space outside parens for func; whole rest for others
			name := rest
			if word == "func" || word == "extern" {
				name, cur.Header = splitFuncName(rest)
			} else {
				cur.Header = rest
				if k := strings.IndexAny(rest, " \t("); k >= 0 && word != "monitor" {
					name = rest[:k]
				}
			}
			cur.Name = name
			blocks = append(blocks, cur)
			curLoop = nil
			last = nil
			continue
		}
		if cur == nil {
			return nil, fmt.Errorf("%s:%d: clause outside block", path, i+1)
		}
		if word == "loop" {
			n, err := strconv.Atoi(strings.Fields(rest)[0])
			if err != nil {
				return nil, fmt.Errorf("%s:%d: bad loop ordinal", path, i+1)
			}
			curLoop = &LoopSpec{Ordinal: n}
			cur.Loops[n] = curLoop
			last = nil
			// allow "loop 1 invariant ..." on one line
			f := strings.Fields(rest)
			if len(f) > 1 {
				rest2 := strings.TrimSpace(strings.TrimPrefix(rest, f[0]))
				w2 := strings.Fields(rest2)[0]
				if clauseKinds[w2] {
					cl := &Clause{Kind: w2, Text: strings.TrimSpace(strings.TrimPrefix(rest2, w2)), File: path, Line: i + 1}
					if m := labelRe.FindStringSubmatch(cl.Text); m != nil {
						cl.Label = m[1]
						cl.Text = cl.Text[len(m[0]):]
					}
					curLoop.Clauses = append(curLoop.Clauses, cl)
					last = cl
				}
			}
			continue
		}
		if word == "endloop" {
			curLoop = nil
			last = nil
			continue
		}
		if clauseKinds[word] {
			cl := &Clause{Kind: word, Text: rest, File: path, Line: i + 1}
			if m := labelRe.FindStringSubmatch(cl.Text); m != nil {
				cl.Label = m[1]
				cl.Text = cl.Text[len(m[0]):]
			}
			switch word {
			case "props":
				cur.Props = append(cur.Props, strings.Fields(rest)...)
				last = nil
				continue
			case "nopanic", "pure", "inline", "trusted", "noinline", "opaque", "maypanic", "terminates", "noframe", "group", "lockkey", "noreturn", "ghost", "noalloc", "deadcode", "relocks", "splitreturn":
				cur.Flags[word] = rest
				last = nil
				continue
			}
			if curLoop != nil && (word == "invariant" || word == "decreases" || word == "unroll" || word == "modifies" || word == "assume") {
				curLoop.Clauses = append(curLoop.Clauses, cl)
			} else {
				cur.Clauses = append(cur.Clauses, cl)
			}
			last = cl
			continue
		}
		// continuation
		if last == nil {
			return nil, fmt.Errorf("%s:%d: unknown clause %q", path, i+1, word)
		}
		last.Text += " " + body
	}
	return blocks, nil
}

// splitFuncName splits "(*Pieces).ReadAt rest" or "Read rest".
func splitFuncName(s string) (string, string) {
	s = strings.TrimSpace(s)
	depth := 0
	for i, r := range s {
		switch r {
		case '(':
			depth++
		case ')':
			depth--
		case ' ', '\t':
			if depth == 0 {
				return s[:i], strings.TrimSpace(s[i:])
			}
		}
	}
	return s, ""
}

// FindContractFiles lists zz_contracts_verif.go files under repo.
func FindContractFiles(repo string) []string {
	var out []string
	filepath.Walk(repo, func(p string, info os.FileInfo, err error) error {
		if err != nil {
			return nil
		}
		if info.IsDir() && (info.Name() == ".git" || info.Name() == "vendor") {
			return filepath.SkipDir
		}
		if !info.IsDir() && strings.HasPrefix(info.Name(), "zz_contracts") && strings.HasSuffix(info.Name(), "_verif.go") {
			out = append(out, p)
		}
		return nil
	})
	sort.Strings(out)
	return out
}

// ---- desugaring of the expression extensions ----

// Desugar rewrites  P ==> Q, P <==> Q, forall x T :: P, exists x T :: P
// into plain Go call syntax understood by the spec evaluator.
func Desugar(s string) (string, error) {
	return desugar(strings.TrimSpace(s))
}

func desugar(s string) (string, error) {
	s = strings.TrimSpace(s)
	// quantifier at the front extends to the end of this group
	for _, q := range []string{"forall", "exists"} {
		if strings.HasPrefix(s, q+" ") {
			k := topIndex(s, "::")
			if k < 0 {
				return "", fmt.Errorf("quantifier without '::' in %q", s)
			}
			decl := strings.TrimSpace(s[len(q):k])
			body, err := desugar(s[k+2:])
			if err != nil {
				return "", err
			}
			// decl: "i int" or "i, j int" or "i int, c uint32"
			return fmt.Sprintf("%s_(func(%s) bool { return %s })", q, decl, body), nil
		}
	}
	// lowest precedence: <==>
	if k := topIndex(s, "<==>"); k >= 0 {
		a, err := desugar(s[:k])
		if err != nil {
			return "", err
		}
		b, err := desugar(s[k+4:])
		if err != nil {
			return "", err
		}
		return fmt.Sprintf("iff_(%s, %s)", a, b), nil
	}
	if k := topIndexImp(s); k >= 0 {
		a, err := desugar(s[:k])
		if err != nil {
			return "", err
		}
		b, err := desugar(s[k+3:])
		if err != nil {
			return "", err
		}
		return fmt.Sprintf("implies_(%s, %s)", a, b), nil
	}
	// ternary  c ? a : b  at top level
	if k := topIndex(s, " ? "); k >= 0 {
		rest := s[k+3:]
		j := topIndex(rest, " : ")
		if j >= 0 {
			c, err := desugar(s[:k])
			if err != nil {
				return "", err
			}
			a, err := desugar(rest[:j])
			if err != nil {
				return "", err
			}
			b, err := desugar(rest[j+3:])
			if err != nil {
				return "", err
			}
			return fmt.Sprintf("ite_(%s, %s, %s)", c, a, b), nil
		}
	}
	// && and || at top level: split so that quantifiers/implications nested in
	// operands (inside parentheses) get desugared; operands themselves contain
	// no top-level ==> any more. Recurse into parenthesised groups.
	var sb strings.Builder
	i := 0
	for i < len(s) {
		c := s[i]
		switch c {
		case '(', '[', '{':
			j := matchClose(s, i)
			if j < 0 {
				return "", fmt.Errorf("unbalanced %q in %q", string(c), s)
			}
			inner := s[i+1 : j]
			if ti := strings.TrimSpace(inner); c == '(' && (strings.HasPrefix(ti, "forall ") || strings.HasPrefix(ti, "exists ")) {
				d, err := desugar(inner)
				if err != nil {
					return "", err
				}
				inner = d
			} else if c == '(' {
				// could be an argument list: desugar each top-level comma part
				parts := splitTop(inner, ',')
				for k, p := range parts {
					d, err := desugar(p)
					if err != nil {
						return "", err
					}
					parts[k] = d
				}
				inner = strings.Join(parts, ", ")
			} else if c == '[' {
				d, err := desugarIndex(inner)
				if err != nil {
					return "", err
				}
				inner = d
			}
			sb.WriteByte(c)
			sb.WriteString(inner)
			sb.WriteByte(s[j])
			i = j + 1
		case '"':
			j := i + 1
			for j < len(s) && s[j] != '"' {
				if s[j] == '\\' {
					j++
				}
				j++
			}
			sb.WriteString(s[i:min(j+1, len(s))])
			i = j + 1
		case '\'':
			j := i + 1
			for j < len(s) && s[j] != '\'' {
				if s[j] == '\\' {
					j++
				}
				j++
			}
			sb.WriteString(s[i:min(j+1, len(s))])
			i = j + 1
		default:
			sb.WriteByte(c)
			i++
		}
	}
	out := sb.String()
	out = reOld.ReplaceAllString(out, "old_(")
	out = reRangeIdxN.ReplaceAllString(out, "rangeidxn_($1)")
	out = reRangeIdx.ReplaceAllString(out, "rangeidx_()")
	return out, nil
}

var reOld = regexp.MustCompile(`\bold\(`)
var reRangeIdx = regexp.MustCompile(`\$i\b`)
var reRangeIdxN = regexp.MustCompile(`\$i\(([0-9]+)\)`)

func desugarIndex(inner string) (string, error) {
	// slice expressions a:b contain top-level ':'
	parts := splitTop(inner, ':')
	for k, p := range parts {
		if strings.TrimSpace(p) == "" {
			continue
		}
		d, err := desugar(p)
		if err != nil {
			return "", err
		}
		parts[k] = d
	}
	return strings.Join(parts, ":"), nil
}

func matchClose(s string, i int) int {
	open := s[i]
	var cl byte
	switch open {
	case '(':
		cl = ')'
	case '[':
		cl = ']'
	case '{':
		cl = '}'
	}
	depth := 0
	for j := i; j < len(s); j++ {
		switch s[j] {
		case '"':
			j++
			for j < len(s) && s[j] != '"' {
				if s[j] == '\\' {
					j++
				}
				j++
			}
		case '\'':
			j++
			for j < len(s) && s[j] != '\'' {
				if s[j] == '\\' {
					j++
				}
				j++
			}
		case open:
			depth++
		case cl:
			depth--
			if depth == 0 {
				return j
			}
		}
	}
	return -1
}

// topIndex finds the first occurrence of pat at bracket depth 0.
func topIndex(s, pat string) int {
	depth := 0
	for i := 0; i < len(s); i++ {
		switch s[i] {
		case '(', '[', '{':
			depth++
		case ')', ']', '}':
			depth--
		case '"':
			i++
			for i < len(s) && s[i] != '"' {
				if s[i] == '\\' {
					i++
				}
				i++
			}
			continue
		}
		if depth == 0 && strings.HasPrefix(s[i:], pat) {
			return i
		}
	}
	return -1
}

// topIndexImp finds the first top-level "==>" that is not part of "<==>".
func topIndexImp(s string) int {
	depth := 0
	for i := 0; i < len(s); i++ {
		switch s[i] {
		case '(', '[', '{':
			depth++
		case ')', ']', '}':
			depth--
		case '"':
			i++
			for i < len(s) && s[i] != '"' {
				if s[i] == '\\' {
					i++
				}
				i++
			}
			continue
		}
		if depth == 0 && strings.HasPrefix(s[i:], "==>") && (i == 0 || s[i-1] != '<') {
			return i
		}
	}
	return -1
}

func splitTop(s string, sep byte) []string {
	var out []string
	depth := 0
	start := 0
	for i := 0; i < len(s); i++ {
		switch s[i] {
		case '(', '[', '{':
			depth++
		case ')', ']', '}':
			depth--
		case '"':
			i++
			for i < len(s) && s[i] != '"' {
				if s[i] == '\\' {
					i++
				}
				i++
			}
			continue
		}
		if depth == 0 && s[i] == sep {
			out = append(out, s[start:i])
			start = i + 1
		}
	}
	out = append(out, s[start:])
	return out
}
