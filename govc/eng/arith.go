package eng

import (
	"fmt"
	"go/token"
	"go/types"
	"math/big"

	. "govc/term"
)

func pow2(n uint) *big.Int { return new(big.Int).Lsh(big.NewInt(1), n) }

func typeBits(t types.Type) (bits uint, signed bool) {
	lo, hi, ok := intRange(t)
	if !ok {
		return 64, true
	}
	signed = lo.Sign() < 0
	n := new(big.Int).Add(hi, big.NewInt(1))
	bits = uint(n.BitLen() - 1)
	if signed {
		bits++
	}
	return
}

// wrap reduces a mathematical integer to the range of typ.
func (e *Engine) wrap(t *Term, typ types.Type) *Term {
	c := e.C
	lo, hi, ok := intRange(typ)
	if !ok {
		return t
	}
	bits, signed := typeBits(typ)
	m := pow2(bits)
	if t.Op == "int" {
		v := new(big.Int).Mod(t.IVal, m)
		if signed && v.Cmp(hi) > 0 {
			v.Sub(v, m)
		}
		return c.IntB(v)
	}
	_ = lo
	if !signed {
		return c.Mod(t, c.IntB(m))
	}
	half := pow2(bits - 1)
	return c.Sub(c.Mod(c.Add(t, c.IntB(half)), c.IntB(m)), c.IntB(half))
}

// wrap1 is wrap for a value known to be off by at most one modulus.
func (e *Engine) wrap1(t *Term, typ types.Type) *Term {
	c := e.C
	lo, hi, ok := intRange(typ)
	if !ok {
		return t
	}
	if t.Op == "int" {
		return e.wrap(t, typ)
	}
	bits, _ := typeBits(typ)
	m := c.IntB(pow2(bits))
	return c.Ite(c.Gt(t, c.IntB(hi)), c.Sub(t, m), c.Ite(c.Lt(t, c.IntB(lo)), c.Add(t, m), t))
}

func (e *Engine) toUnsigned(t *Term, typ types.Type) *Term {
	bits, signed := typeBits(typ)
	if !signed {
		return t
	}
	if t.Op == "int" {
		return e.C.IntB(new(big.Int).Mod(t.IVal, pow2(bits)))
	}
	return e.C.Ite(e.C.Lt(t, e.C.IntC(0)), e.C.Add(t, e.C.IntB(pow2(bits))), t)
}

func (e *Engine) fromUnsigned(u *Term, typ types.Type) *Term {
	bits, signed := typeBits(typ)
	if !signed {
		return u
	}
	if u.Op == "int" {
		return e.wrap(u, typ)
	}
	return e.C.Ite(e.C.Ge(u, e.C.IntB(pow2(bits-1))), e.C.Sub(u, e.C.IntB(pow2(bits))), u)
}

// andConst computes a & mask for a mask whose top bit is clear; a may be the
// signed value itself (floor div/mod agree with two's complement below the top bit).
func (e *Engine) andConst(u *Term, mask *big.Int, bits uint) *Term {
	c := e.C
	res := c.IntC(0)
	i := uint(0)
	for i < bits {
		if mask.Bit(int(i)) == 0 {
			i++
			continue
		}
		j := i
		for j < bits && mask.Bit(int(j)) == 1 {
			j++
		}
		// run [i, j)
		part := c.Div(u, c.IntB(pow2(i)))
		if j < bits {
			part = c.Mod(part, c.IntB(pow2(j-i)))
		}
		res = c.Add(res, c.Mul(part, c.IntB(pow2(i))))
		i = j
	}
	return res
}

func (e *Engine) pow2Term(k *Term) *Term {
	c := e.C
	if k.Op == "int" && k.IVal.IsInt64() && k.IVal.Int64() >= 0 && k.IVal.Int64() < 512 {
		return c.IntB(pow2(uint(k.IVal.Int64())))
	}
	if _, ok := c.Funs["pow2"]; !ok {
		p := c.BoundVar("k", Int)
		body := c.IntC(0)
		for i := 64; i >= 0; i-- {
			body = c.Ite(c.Eq(p, c.IntC(int64(i))), c.IntB(pow2(uint(i))), body)
		}
		c.Define("pow2", []*Term{p}, Int, body, false)
	}
	return c.App("pow2", Int, k)
}

// intBin implements Go integer binary operators on mathematical Int terms of
// type typ (both operands already in range).  ytyp is the type of y for shifts.
func (x *exec) intBin(op token.Token, a, b *Term, typ, ytyp types.Type, s *State, pos token.Pos) *Term {
	e := x.e
	c := e.C
	bits, signed := typeBits(typ)
	if e.specMath > 0 && signed && bits == 64 {
		// specification arithmetic on int/int64 is mathematical (unbounded)
		switch op {
		case token.ADD:
			return c.Add(a, b)
		case token.SUB:
			return c.Sub(a, b)
		case token.MUL:
			return c.Mul(a, b)
		}
	}
	switch op {
	case token.ADD:
		return e.wrap1(c.Add(a, b), typ)
	case token.SUB:
		return e.wrap1(c.Sub(a, b), typ)
	case token.MUL:
		return e.wrap(c.Mul(a, b), typ)
	case token.QUO, token.REM:
		x.oblige("div", "", pos, s, c.Ne(b, c.IntC(0)), "division by zero")
		var q *Term
		if !signed {
			q = c.Div(a, b)
		} else {
			na, nb := c.Neg(a), c.Neg(b)
			q = c.Ite(c.Ge(a, c.IntC(0)),
				c.Ite(c.Gt(b, c.IntC(0)), c.Div(a, b), c.Neg(c.Div(a, nb))),
				c.Ite(c.Gt(b, c.IntC(0)), c.Neg(c.Div(na, b)), c.Div(na, nb)))
			if b.Op == "int" && b.IVal.Sign() > 0 {
				q = c.Ite(c.Ge(a, c.IntC(0)), c.Div(a, b), c.Neg(c.Div(na, b)))
			}
		}
		if op == token.QUO {
			if signed {
				return e.wrap1(q, typ)
			}
			return q
		}
		if !signed {
			return c.Mod(a, b)
		}
		return c.Sub(a, c.Mul(b, q))
	case token.AND, token.OR, token.XOR, token.AND_NOT:
		if a.Op == "int" && b.Op != "int" && op != token.AND_NOT {
			a, b = b, a
		}
		if b.Op == "int" {
			mb := new(big.Int).Mod(b.IVal, pow2(bits))
			full := new(big.Int).Sub(pow2(bits), big.NewInt(1))
			if op == token.AND_NOT {
				mb = new(big.Int).Xor(mb, full)
			}
			top := mb.Bit(int(bits)-1) == 1
			switch {
			case (op == token.AND || op == token.AND_NOT) && !top:
				return e.andConst(a, mb, bits)
			case (op == token.AND || op == token.AND_NOT) && top:
				// x & m = x - (x & ^m)
				return c.Sub(a, e.andConst(a, new(big.Int).Xor(mb, full), bits))
			case op == token.OR && !top:
				return c.Sub(c.Add(a, c.IntB(mb)), e.andConst(a, mb, bits))
			case op == token.XOR && !top:
				return c.Sub(c.Add(a, c.IntB(mb)), c.Mul(c.IntC(2), e.andConst(a, mb, bits)))
			}
			ua := e.toUnsigned(a, typ)
			and := c.Sub(ua, e.andConst(ua, new(big.Int).Xor(mb, full), bits))
			var r *Term
			switch op {
			case token.OR:
				r = c.Sub(c.Add(ua, c.IntB(mb)), and)
			case token.XOR:
				r = c.Sub(c.Add(ua, c.IntB(mb)), c.Mul(c.IntC(2), and))
			}
			return e.fromUnsigned(r, typ)
		}
		name := map[token.Token]string{token.AND: "bitand", token.OR: "bitor", token.XOR: "bitxor", token.AND_NOT: "bitandnot"}[op]
		r := c.App(name, Int, a, b)
		e.rangeFact(r, typ)
		return r
	case token.SHL:
		if b.Op == "int" {
			if b.IVal.Cmp(big.NewInt(int64(bits))) >= 0 {
				return c.IntC(0)
			}
			return e.wrap(c.Mul(a, c.IntB(pow2(uint(b.IVal.Int64())))), typ)
		}
		if ytyp != nil {
			if _, ys := typeBits(ytyp); ys {
				x.oblige("shift", "", pos, s, c.Ge(b, c.IntC(0)), "negative shift count")
			}
		}
		return c.Ite(c.Ge(b, c.IntC(int64(bits))), c.IntC(0), e.wrap(c.Mul(a, e.pow2Term(b)), typ))
	case token.SHR:
		if b.Op == "int" {
			if b.IVal.Cmp(big.NewInt(int64(bits))) >= 0 {
				if signed {
					return c.Ite(c.Lt(a, c.IntC(0)), c.IntC(-1), c.IntC(0))
				}
				return c.IntC(0)
			}
			return c.Div(a, c.IntB(pow2(uint(b.IVal.Int64()))))
		}
		if ytyp != nil {
			if _, ys := typeBits(ytyp); ys {
				x.oblige("shift", "", pos, s, c.Ge(b, c.IntC(0)), "negative shift count")
			}
		}
		big := c.Ge(b, c.IntC(int64(bits)))
		var over *Term = c.IntC(0)
		if signed {
			over = c.Ite(c.Lt(a, c.IntC(0)), c.IntC(-1), c.IntC(0))
		}
		return c.Ite(big, over, c.Div(a, e.pow2Term(b)))
	}
	e.unsupported("integer operator %s", op)
	return nil
}

func (x *exec) intCmp(op token.Token, a, b *Term) *Term {
	c := x.e.C
	switch op {
	case token.EQL:
		return c.Eq(a, b)
	case token.NEQ:
		return c.Ne(a, b)
	case token.LSS:
		return c.Lt(a, b)
	case token.LEQ:
		return c.Le(a, b)
	case token.GTR:
		return c.Gt(a, b)
	case token.GEQ:
		return c.Ge(a, b)
	}
	return nil
}

func (x *exec) byteBin(op token.Token, a, b *Term, s *State, pos token.Pos) *Term {
	c := x.e.C
	switch op {
	case token.ADD:
		return c.BVBin("bvadd", a, b)
	case token.SUB:
		return c.BVBin("bvsub", a, b)
	case token.MUL:
		return c.BVBin("bvmul", a, b)
	case token.QUO:
		x.oblige("div", "", pos, s, c.Ne(b, c.BVC(0)), "division by zero")
		return c.BVBin("bvudiv", a, b)
	case token.REM:
		x.oblige("div", "", pos, s, c.Ne(b, c.BVC(0)), "division by zero")
		return c.BVBin("bvurem", a, b)
	case token.AND:
		return c.BVBin("bvand", a, b)
	case token.OR:
		return c.BVBin("bvor", a, b)
	case token.XOR:
		return c.BVBin("bvxor", a, b)
	case token.AND_NOT:
		return c.BVBin("bvand", a, c.BVNot(b))
	case token.SHL:
		return c.BVBin("bvshl", a, b)
	case token.SHR:
		return c.BVBin("bvlshr", a, b)
	case token.EQL:
		return c.Eq(a, b)
	case token.NEQ:
		return c.Ne(a, b)
	case token.LSS:
		return c.BVCmp("bvult", a, b)
	case token.LEQ:
		return c.BVCmp("bvule", a, b)
	case token.GTR:
		return c.BVCmp("bvult", b, a)
	case token.GEQ:
		return c.BVCmp("bvule", b, a)
	}
	x.e.unsupported("byte operator %s", op)
	return nil
}

// binop evaluates a Go binary operator on two values of (operand) types xt, yt.
func (x *exec) binop(op token.Token, a, b Value, xt, yt types.Type, s *State, pos token.Pos) Value {
	e := x.e
	c := e.C
	if pa, ok := a.(PoisonV); ok {
		return pa
	}
	if pb, ok := b.(PoisonV); ok {
		return pb
	}
	rx := repOf(xt)
	switch rx {
	case RInt:
		at, _ := a.(*Term)
		if op == token.SHL || op == token.SHR {
			bt := x.shiftCount(b, yt)
			return x.intBin(op, at, bt, xt, yt, s, pos)
		}
		bt, _ := b.(*Term)
		if at == nil || bt == nil {
			return PoisonV{"int binop on non-terms"}
		}
		if r := x.intCmp(op, at, bt); r != nil {
			return r
		}
		return x.intBin(op, at, bt, xt, yt, s, pos)
	case RByte:
		at, _ := a.(*Term)
		var bt *Term
		if op == token.SHL || op == token.SHR {
			cnt := x.shiftCount(b, yt)
			// count as Int; >= 8 gives 0
			if cnt.Op == "int" {
				if cnt.IVal.Cmp(big.NewInt(8)) >= 0 {
					return c.BVC(0)
				}
				bt = c.BVC(cnt.IVal.Int64())
			} else if repOf(yt) == RByte {
				bt = b.(*Term)
			} else {
				r := x.byteBin(op, at, c.Int2BV(cnt), s, pos)
				return c.Ite(c.Ge(cnt, c.IntC(8)), c.BVC(0), r)
			}
			return x.byteBin(op, at, bt, s, pos)
		}
		bt, _ = b.(*Term)
		return x.byteBin(op, at, bt, s, pos)
	case RBool:
		at, bt := a.(*Term), b.(*Term)
		switch op {
		case token.EQL:
			return c.Eq(at, bt)
		case token.NEQ:
			return c.Ne(at, bt)
		case token.LAND, token.AND:
			return c.And(at, bt)
		case token.LOR, token.OR:
			return c.Or(at, bt)
		}
	case RStr:
		at, bt := a.(*Term), b.(*Term)
		switch op {
		case token.EQL:
			return c.Eq(at, bt)
		case token.NEQ:
			return c.Ne(at, bt)
		case token.ADD:
			r := c.App("s.concat", Str, at, bt)
			r.AddFact(c.Eq(c.App("s.len", Int, r), c.Add(e.strLen(at), e.strLen(bt))))
			// a concatenation is safe to emit iff both parts are (spec builtin safe_)
			r.AddFact(c.Eq(c.App("s.safe", Bool, r), c.And(c.App("s.safe", Bool, at), c.App("s.safe", Bool, bt))))
			return r
		case token.LSS:
			return e.strLess(at, bt)
		case token.GTR:
			return e.strLess(bt, at)
		case token.LEQ:
			return c.Not(e.strLess(bt, at))
		case token.GEQ:
			return c.Not(e.strLess(at, bt))
		}
	case RFlt:
		at, bt := a.(*Term), b.(*Term)
		switch op {
		case token.EQL, token.NEQ, token.LSS, token.LEQ, token.GTR, token.GEQ:
			r := c.App("flt."+op.String(), Bool, at, bt)
			if op == token.NEQ {
				return c.Not(c.App("flt.==", Bool, at, bt))
			}
			return r
		}
		return c.App("flt."+op.String(), Flt, at, bt)
	case RPtr:
		pa, oka := a.(PtrV)
		pb, okb := b.(PtrV)
		if oka && okb {
			eq := x.ptrEq(pa, pb)
			if eq == nil {
				return PoisonV{"pointer comparison"}
			}
			if op == token.EQL {
				return eq
			}
			return c.Not(eq)
		}
	case RIface:
		ia, oka := a.(IfaceV)
		ib, okb := b.(IfaceV)
		if oka && okb {
			eq := c.And(c.Eq(ia.Tag, ib.Tag), c.Eq(ia.Box, ib.Box))
			// comparison with the nil interface: an interface is nil iff its
			// type word is nil
			if ib.Tag.Op == "int" && ib.Tag.IVal.Sign() == 0 {
				eq = c.Eq(ia.Tag, c.IntC(0))
			} else if ia.Tag.Op == "int" && ia.Tag.IVal.Sign() == 0 {
				eq = c.Eq(ib.Tag, c.IntC(0))
			}
			if op == token.EQL {
				return eq
			}
			return c.Not(eq)
		}
	case RSlice:
		// only comparison with nil
		sa, oka := a.(SliceV)
		sb, okb := b.(SliceV)
		if oka && okb {
			var eq *Term
			if sb.Arr.Op == "int" {
				eq = c.Eq(sa.Arr, c.IntC(0))
			} else {
				eq = c.Eq(sb.Arr, c.IntC(0))
			}
			if op == token.EQL {
				return eq
			}
			return c.Not(eq)
		}
	case RMap, RChan:
		at, bt := a.(*Term), b.(*Term)
		if op == token.EQL {
			return c.Eq(at, bt)
		}
		return c.Ne(at, bt)
	case RFunc:
		fa, oka := a.(FuncV)
		fb, okb := b.(FuncV)
		if oka && okb {
			var eq *Term
			if fa.Fn != nil || fb.Fn != nil {
				eq = c.False() // comparing a known function with nil
				if fa.Fn != nil && fb.Fn != nil {
					return PoisonV{"func comparison"}
				}
			} else {
				eq = c.Eq(fa.Opaque, fb.Opaque)
			}
			if op == token.EQL {
				return eq
			}
			return c.Not(eq)
		}
	case RArray:
		aa, oka := a.(ArrayV)
		ab, okb := b.(ArrayV)
		if oka && okb && aa.A != nil && ab.A != nil {
			at := xt.Underlying().(*types.Array)
			var eq *Term
			if at.Len() <= 32 {
				var cs []*Term
				for i := int64(0); i < at.Len(); i++ {
					cs = append(cs, c.Eq(c.Select(aa.A, c.IntC(i)), c.Select(ab.A, c.IntC(i))))
				}
				eq = c.And(cs...)
			} else {
				k := c.BoundVar("k", Int)
				eq = c.Quant("forall", []*Term{k}, c.Implies(c.And(c.Le(c.IntC(0), k), c.Lt(k, c.IntC(at.Len()))), c.Eq(c.Select(aa.A, k), c.Select(ab.A, k))), nil)
			}
			if op == token.EQL {
				return eq
			}
			return c.Not(eq)
		}
	case RStruct:
		sa, oka := a.(StructV)
		sb, okb := b.(StructV)
		if oka && okb {
			st := structOf(xt)
			var cs []*Term
			for i := range sa.F {
				r := x.binop(token.EQL, sa.F[i], sb.F[i], st.Field(i).Type(), st.Field(i).Type(), s, pos)
				rt, ok := r.(*Term)
				if !ok {
					return PoisonV{"struct comparison"}
				}
				cs = append(cs, rt)
			}
			eq := c.And(cs...)
			if op == token.EQL {
				return eq
			}
			return c.Not(eq)
		}
	}
	return PoisonV{"binop " + op.String() + " on " + xt.String()}
}

func (x *exec) shiftCount(b Value, yt types.Type) *Term {
	bt, _ := b.(*Term)
	if bt == nil {
		x.e.unsupported("shift count")
	}
	if bt.Sort == BV8 {
		return x.e.C.BV2Nat(bt)
	}
	return bt
}

func (x *exec) ptrEq(a, b PtrV) *Term {
	c := x.e.C
	ra, ea := x.e.refOfPtr(a)
	rb, eb := x.e.refOfPtr(b)
	if ea == nil && eb == nil {
		return c.Eq(ra, rb)
	}
	// a Go-side pointer (never nil) against a reference
	if ea != nil && eb == nil && rb.Op == "int" && rb.IVal.Sign() == 0 {
		return c.False()
	}
	if eb != nil && ea == nil && ra.Op == "int" && ra.IVal.Sign() == 0 {
		return c.False()
	}
	if a.Kind == PCell && b.Kind == PCell {
		if a.Cell != b.Cell {
			return c.False()
		}
		if len(a.Path) == 0 && len(b.Path) == 0 {
			return c.True()
		}
	}
	if a.Kind == PLeaf && b.Kind == PLeaf && a.Key == b.Key && a.Idx == nil && b.Idx == nil {
		return c.Eq(a.Ref, b.Ref)
	}
	return nil
}

func (e *Engine) strLess(a, b *Term) *Term {
	c := e.C
	if _, ok := c.Funs["s.lt"]; !ok {
		c.Declare("s.lt", []*Sort{Str, Str}, Bool)
		p, q, r := c.BoundVar("p", Str), c.BoundVar("q", Str), c.BoundVar("r", Str)
		lt := func(u, v *Term) *Term { return c.App("s.lt", Bool, u, v) }
		c.AddAxiom("s.lt-irrefl", []string{"s.lt"}, c.Quant("forall", []*Term{p}, c.Not(lt(p, p)), [][]*Term{{lt(p, p)}}))
		c.AddAxiom("s.lt-total", []string{"s.lt"}, c.Quant("forall", []*Term{p, q}, c.Or(lt(p, q), lt(q, p), c.Eq(p, q)), [][]*Term{{lt(p, q)}}))
		c.AddAxiom("s.lt-asym", []string{"s.lt"}, c.Quant("forall", []*Term{p, q}, c.Not(c.And(lt(p, q), lt(q, p))), [][]*Term{{lt(p, q)}}))
		c.AddAxiom("s.lt-trans", []string{"s.lt"}, c.Quant("forall", []*Term{p, q, r}, c.Implies(c.And(lt(p, q), lt(q, r)), lt(p, r)), [][]*Term{{lt(p, q), lt(q, r)}}))
	}
	return c.App("s.lt", Bool, a, b)
}

// convert implements Go conversions between basic types.
func (x *exec) convert(v Value, from, to types.Type, s *State) Value {
	e := x.e
	c := e.C
	if pv, ok := v.(PoisonV); ok {
		return pv
	}
	rf, rt := repOf(from), repOf(to)
	switch {
	case rf == RInt && rt == RInt:
		t, isT := v.(*Term)
		if !isT {
			return PoisonV{fmt.Sprintf("conversion of a non-scalar value (%T) -- a name in a specification probably resolves to a different variable than intended", v)}
		}
		flo, fhi, ok1 := intRange(from)
		tlo, thi, ok2 := intRange(to)
		if ok1 && ok2 && tlo.Cmp(flo) <= 0 && fhi.Cmp(thi) <= 0 {
			return t
		}
		bits, signed := typeBits(to)
		if ok1 && ok2 {
			fb, fs := typeBits(from)
			if fb == bits && fs != signed {
				// same width reinterpretation
				if signed {
					return e.fromUnsigned(t, to)
				}
				return e.toUnsigned(t, from)
			}
		}
		return e.wrap(t, to)
	case rf == RInt && rt == RByte:
		t := v.(*Term)
		// small ranges: an ite chain is much cheaper for the solvers than int2bv
		if t.Op == "mod" && t.Args[1].Op == "int" && t.Args[1].IVal.IsInt64() && t.Args[1].IVal.Int64() <= 16 && t.Args[1].IVal.Int64() > 0 {
			n := t.Args[1].IVal.Int64()
			r := c.BVC(n - 1)
			for k := n - 2; k >= 0; k-- {
				r = c.Ite(c.Eq(t, c.IntC(k)), c.BVC(k), r)
			}
			return r
		}
		return c.Int2BV(t)
	case rf == RByte && rt == RInt:
		return c.BV2Nat(v.(*Term))
	case rf == RByte && rt == RByte, rf == RBool && rt == RBool, rf == RStr && rt == RStr, rf == RFlt && rt == RFlt:
		return v
	case rf == RInt && rt == RFlt:
		return c.App("flt.fromint", Flt, v.(*Term))
	case rf == RByte && rt == RFlt:
		return c.App("flt.fromint", Flt, c.BV2Nat(v.(*Term)))
	case rf == RFlt && rt == RInt:
		r := c.App("flt.toint:"+to.Underlying().String(), Int, v.(*Term))
		e.rangeFact(r, to)
		return r
	case rf == RFlt && rt == RByte:
		return c.Int2BV(c.App("flt.toint:uint8", Int, v.(*Term)))
	case rf == RSlice && rt == RStr:
		sv := v.(SliceV)
		// string(bytes): contents abstracted by (array row, off, len)
		el := from.Underlying().(*types.Slice).Elem()
		if repOf(el) != RByte {
			return PoisonV{"string(non-bytes)"}
		}
		h := e.heapGet(s, elemKey(el), Array(Int, Array(Int, BV8)))
		r := c.App("s.frombytes", Str, c.Select(h, sv.Arr), sv.Off, sv.Len)
		r.AddFact(c.Eq(c.App("s.len", Int, r), sv.Len))
		return r
	case rf == RStr && rt == RSlice:
		st := v.(*Term)
		el := to.Underlying().(*types.Slice).Elem()
		if repOf(el) != RByte {
			return PoisonV{"[]non-byte(string)"}
		}
		n := e.strLen(st)
		arr := e.newRef(s, "strbytes")
		key := elemKey(el)
		h := e.heapGet(s, key, Array(Int, Array(Int, BV8)))
		var row *Term
		if lit, ok := e.strLitVals[st]; ok && len(lit) <= 64 {
			row = c.ConstArr(Array(Int, BV8), c.BVC(0))
			for i := 0; i < len(lit); i++ {
				row = c.Store(row, c.IntC(int64(i)), c.BVC(int64(lit[i])))
			}
		} else {
			row = c.Fresh("strbytes", Array(Int, BV8))
			k := c.BoundVar("k", Int)
			sel := c.Select(row, k)
			row.AddFact(c.Quant("forall", []*Term{k}, c.Implies(c.And(c.Le(c.IntC(0), k), c.Lt(k, n)), c.Eq(sel, c.App("s.at", BV8, st, k))), [][]*Term{{sel}}))
		}
		e.heapSet(s, key, c.Store(h, arr, row))
		s.alloc = c.Add(s.alloc, n)
		return SliceV{Arr: c.Ite(c.Eq(n, c.IntC(0)), arr, arr), Off: c.IntC(0), Len: n, Cap: n}
	case rf == RInt && rt == RStr:
		return c.App("s.fromrune", Str, v.(*Term))
	case rf == RByte && rt == RStr:
		return c.App("s.fromrune", Str, c.BV2Nat(v.(*Term)))
	case rf == rt:
		return v
	}
	return PoisonV{"convert " + from.String() + " to " + to.String()}
}
