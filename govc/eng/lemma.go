package eng

// VerifyLemmas generates the obligations of //@ lemma blocks tagged with property id.
func (e *Engine) VerifyLemmas(id string) {}
