package eng

import (
	"fmt"
	"go/types"
	"sort"

	"golang.org/x/tools/go/ssa"
)

// VerifyLemmas generates the repository-wide obligations that do not belong to
// one function. At present: one obligation per "final" field that the proofs of
// this run relied on (kind "final"): over the SSA of EVERY function of the
// repository, the field is stored to only through a pointer to a struct that
// the storing function has just allocated itself (a composite literal / new):
// that is what lets havocs leave the field alone.
func (e *Engine) VerifyLemmas(id string) {
	e.isFinal("") // load the declarations
	var keys []string
	for k := range e.finals {
		if k != "" {
			keys = append(keys, k)
		}
	}
	sort.Strings(keys)
	if len(keys) == 0 {
		return
	}
	bad := map[string][]string{}
	for _, fn := range e.P.AllFuncs("") {
		for _, b := range fn.Blocks {
			for _, in := range b.Instrs {
				st, ok := in.(*ssa.Store)
				if !ok {
					continue
				}
				fa, ok := st.Addr.(*ssa.FieldAddr)
				if !ok {
					continue
				}
				key := finalKeyOf(fa)
				if key == "" || !e.finals[key] {
					continue
				}
				if _, fresh := fa.X.(*ssa.Alloc); fresh {
					continue // initialisation of a struct created here
				}
				bad[key] = append(bad[key], e.P.Pos(st.Pos()))
			}
		}
	}
	for _, k := range keys {
		ob := &Obligation{Name: "final:" + k, Kind: "final", Props: []string{id}, Clause: "the field " + k + " is assigned only where its struct is created", PosStr: "-"}
		if len(bad[k]) > 0 {
			ob.Err = fmt.Sprintf("assigned at %v", bad[k])
		} else {
			ob.Status = "proved"
			ob.Solver = "ssa-scan"
		}
		e.Obls = append(e.Obls, ob)
	}
}

func finalKeyOf(fa *ssa.FieldAddr) string { return fieldKeyOfPtr(fa) }

func fieldKeyOfPtr(fa *ssa.FieldAddr) (key string) {
	defer func() {
		if recover() != nil {
			key = ""
		}
	}()
	p := fa.X.Type().Underlying().(*types.Pointer)
	return fieldKey(p.Elem(), fa.Field)
}
