package eng

import (
	"go/token"

	. "govc/term"
)

// Monitor support. A monitor block
//
//	//@ monitor (ps *Pieces) mu
//	//@   protects  piece.Pieces.count, piece.Piece.data, ...   (heap key prefixes)
//	//@   invariant [label] <expr over ps>
//	//@   guarantee [label] <two-state expr: old(...) is the state at Lock>
//
// is keyed by the lock's heap address name (the struct field holding the mutex).
type monitor struct {
	blk      *Block
	lockKey  string // fieldKey of the mutex field, e.g. ".../piece.Pieces.mu"
	protects []string
}

func (e *Engine) monitorFor(lockKey string) *monitor {
	for _, b := range e.P.Monitors {
		if b.Flags["lockkey"] == lockKey {
			m := &monitor{blk: b, lockKey: lockKey}
			for _, c := range b.Of("protects") {
				for _, it := range splitTop(c.Text, ',') {
					m.protects = append(m.protects, trim(it))
				}
			}
			return m
		}
	}
	return nil
}

func trim(s string) string {
	for len(s) > 0 && (s[0] == ' ' || s[0] == '\t') {
		s = s[1:]
	}
	for len(s) > 0 && (s[len(s)-1] == ' ' || s[len(s)-1] == '\t') {
		s = s[:len(s)-1]
	}
	return s
}

func (x *exec) monitorLock(s *State, p PtrV, write bool, pos token.Pos) {
	c := x.e.C
	k := x.e.lockKeyOf(p)
	if k == "" {
		return
	}
	if h, ok := s.held[k]; ok && !h.IsFalse() {
		x.oblige("lock", "", pos, s, c.Not(h), "lock acquired while already held (self-deadlock)")
	}
	if write {
		s.held[k] = c.True()
	} else {
		s.held[k+"#r"] = c.True()
	}
	x.monitorAcquire(s, p, k, write, pos)
}

func (x *exec) monitorUnlock(s *State, p PtrV, write bool, pos token.Pos) {
	c := x.e.C
	k := x.e.lockKeyOf(p)
	if k == "" {
		return
	}
	hk := k
	if !write {
		hk = k + "#r"
	}
	h, ok := s.held[hk]
	if !ok {
		h = c.False()
	}
	x.oblige("lock", "", pos, s, h, "unlock of a lock that is not held")
	x.monitorRelease(s, p, k, write, pos)
	s.held[hk] = c.False()
}

// lockset: obligation that a protected location is accessed with its lock held.
func (x *exec) lockset(s *State, p PtrV, write bool, pos token.Pos) {
	x.monitorAccess(s, p, write, pos)
}

func (x *exec) protectedAndHeld(s *State, p PtrV) bool {
	return x.monitorHeldFor(s, p)
}

var _ = Bool
