package eng

import (
	"fmt"
	"go/token"
	"go/types"
	"math/big"
	"strconv"
	"strings"
	"time"

	"golang.org/x/tools/go/ssa"

	. "govc/term"
)

// stubs, refined in monitor2.go
func (x *exec) monitorAcquire(s *State, p PtrV, k string, write bool, pos token.Pos) {
	x.monitorAcquireImpl(s, p, k, write, pos)
}
func (x *exec) monitorRelease(s *State, p PtrV, k string, write bool, pos token.Pos) {
	x.monitorReleaseImpl(s, p, k, write, pos)
}
func (x *exec) monitorAccess(s *State, p PtrV, write bool, pos token.Pos) {
	x.monitorAccessImpl(s, p, write, pos)
}
func (x *exec) monitorHeldFor(s *State, p PtrV) bool { return x.monitorHeldForImpl(s, p) }

func (e *Engine) initialState() *State {
	c := e.C
	n0 := c.Const("next0", Int)
	n0.AddFact(c.Lt(c.IntB(new(big.Int).Lsh(big.NewInt(1), 20)), n0))
	return &State{pc: c.True(), cells: map[*Cell]Value{}, heap: map[string]*Term{}, next: n0, alloc: c.IntC(0), held: map[string]*Term{}, snap: map[string]*State{}}
}

// VerifyFunc generates the obligations of fn against its contract blk
// (blk may be nil: safety-only sweep).
func (e *Engine) VerifyFunc(fn *ssa.Function, blk *Block, props []string) (err error) {
	e.curFunc = FuncKey(fn)
	e.curProps = props
	e.freshRefs = map[*Term]bool{}
	e.funcStart = time.Now()
	e.funcTermBase = e.C.NumTerms()
	e.localArrays = nil
	if blk != nil && len(blk.Props) > 0 && props == nil {
		e.curProps = blk.Props
	}
	start := len(e.Obls)
	defer func() {
		if r := recover(); r != nil {
			if se, ok := r.(subsetErr); ok {
				e.Obls = e.Obls[:start]
				e.Obls = append(e.Obls, &Obligation{Name: shortFuncKey(fn) + ":subset", Kind: "subset", Func: FuncKey(fn), Props: e.curProps, Err: se.msg, Hyp: e.C.True(), Goal: e.C.False(), PosStr: e.P.Pos(fn.Pos())})
				err = fmt.Errorf("%s: outside the handled subset: %s", FuncKey(fn), se.msg)
				return
			}
			panic(r)
		}
	}()
	if fn.Blocks == nil {
		e.unsupported("no body")
	}
	c := e.C
	s := e.initialState()
	x := &exec{e: e, fn: fn, regs: map[ssa.Value]Value{}, cellOf: map[*ssa.Alloc]*Cell{}, top: true, blockOut: map[int]*State{}, contract: blk}
	for _, p := range fn.Params {
		x.args = append(x.args, e.fresh(p.Type(), "p."+p.Name(), s))
	}
	for _, fv := range fn.FreeVars {
		// free variables are pointers to captured variables: model as cells
		t := fv.Type().(*types.Pointer).Elem()
		cell := e.newCell(fv.Name(), t)
		s.cells[cell] = e.fresh(t, "fv."+fv.Name(), s)
		x.freeVars = append(x.freeVars, PtrV{Kind: PCell, Cell: cell, T: t})
	}
	x.entry = s
	x.ghostCells = map[string]*Cell{}
	if pk := e.P.PkgOf(fn); pk != nil && blk != nil {
		// every ghost variable declared in the package (function or monitor blocks)
		names := pk.Types.Scope().Names()
		for _, n := range names {
			if !strings.HasPrefix(n, "Ghost_") {
				continue
			}
			obj := pk.Types.Scope().Lookup(n)
			cell := e.newCell(n, obj.Type())
			x.ghostCells[n] = cell
			s.cells[cell] = e.zero(obj.Type())
		}
	}
	if blk != nil {
		for _, cl := range blk.Of("ghostinit") {
			asg := strings.SplitN(cl.Text, "=", 2)
			if len(asg) != 2 {
				continue
			}
			if cell, ok := x.ghostCells[strings.TrimSpace(asg[0])]; ok {
				sub := &Clause{Kind: "ghostinit", Text: strings.TrimSpace(asg[1]), File: cl.File, Line: cl.Line, Label: "init"}
				if v := x.evalClause(sub, s, token.NoPos); v != nil {
					s.cells[cell] = v
				}
			}
		}
		for _, cl := range blk.Of("requires") {
			g := x.evalClauseBool(cl, s, token.NoPos)
			if e.Trace {
				fmt.Printf("  requires %q -> %s\n", cl.Text, shortTerm(g))
			}
			s.assume(c, g)
		}
		// "assume": an environment assumption of this function's proof that
		// callers are NOT asked to establish (listed in the evidence)
		for _, cl := range blk.Of("assume") {
			g := x.evalClauseBool(cl, s, token.NoPos)
			s.assume(c, g)
			e.Assumed[shortFuncKey(fn)+": "+cl.Text] = true
		}
		// monitor invariants assumed by "holds" are handled by monitor code
		x.assumeEntryMonitors(s, blk)
		if len(blk.Of("requires")) > 0 {
			ob := x.oblige("vacuous", "requires", fn.Pos(), s, c.True(), "preconditions are satisfiable")
			if ob != nil {
				ob.Cover = true
			}
		}
	}
	x.entry = s.clone()
	// witness terms: values asked from the solver when an obligation fails,
	// used to build a concrete input for the replay on the real code
	var wTerms []*Term
	var wNames []string
	// default witnesses: scalar parameters and lengths of slice parameters
	for i, p := range fn.Params {
		switch v := x.args[i].(type) {
		case *Term:
			if v.Sort == Int || v.Sort == Bool || v.Sort == BV8 {
				wTerms = append(wTerms, v)
				wNames = append(wNames, "arg."+p.Name())
			}
		case SliceV:
			wTerms = append(wTerms, v.Len)
			wNames = append(wNames, "len."+p.Name())
		}
	}
	if blk != nil {
		for _, cl := range blk.Of("witness") {
			n := 1
			name := cl.Label
			if k := strings.Index(name, ":"); k >= 0 {
				fmt.Sscanf(name[k+1:], "%d", &n)
				name = name[:k]
			}
			for k := 0; k < n; k++ {
				sub := &Clause{Kind: "witness", Label: fmt.Sprintf("%s#%d", cl.Label, k), Text: strings.Replace(cl.Text, "$k", fmt.Sprint(k), -1), File: cl.File, Line: cl.Line}
				e.dry++
				v := x.evalClause(sub, x.entry, token.NoPos)
				e.dry--
				if t, ok := v.(*Term); ok {
					wTerms = append(wTerms, t)
					if strings.Contains(cl.Label, ":") {
						wNames = append(wNames, fmt.Sprintf("%s[%d]", name, k))
					} else {
						wNames = append(wNames, name)
					}
				}
			}
		}
	}
	var hints []*Term
	for i := range fn.Params {
		if v, ok := x.args[i].(*Term); ok && v.Sort == Int {
			hints = append(hints, v)
		}
	}
	defer func() {
		for _, ob := range e.Obls[start:] {
			if blk != nil {
				// "waive <kind>[:<label>] :: reason": the obligation is generated and
				// reported as NOT proved, but does not count as a violation
				for _, cl := range blk.Of("waive") {
					parts := strings.SplitN(cl.Text, "::", 2)
					f := strings.SplitN(strings.TrimSpace(parts[0]), ":", 2)
					if ob.Kind == f[0] && (len(f) == 1 || strings.Contains(ob.Label, f[1]) || strings.HasSuffix(ob.Name, ":"+f[1])) && ob.Status == "" {
						ob.Status = "waived"
						if len(parts) == 2 {
							ob.Err = strings.TrimSpace(parts[1])
						}
					}
				}
			}
			ob.Hints = hints
			if blk != nil {
				// "instconsts N": the small constants 1..N are instantiation candidates
				// for the obligations of this function (fixed-layout byte buffers:
				// hypotheses about p[k] are needed at k = 5, 6, 7, ...)
				if ic := blk.Of("instconsts"); len(ic) > 0 {
					if n, err := strconv.Atoi(strings.TrimSpace(ic[0].Text)); err == nil && n > 0 && n <= 64 {
						hs := append([]*Term{}, hints...)
						for i := 1; i <= n; i++ {
							hs = append(hs, e.C.IntC(int64(i)))
						}
						ob.Hints = hs
					}
				}
			}
			ob.ModelTerms = wTerms
			ob.ModelNames = wNames
			if blk != nil {
				if r := blk.Of("replay"); len(r) > 0 {
					ob.ReplayTemplate = strings.TrimSpace(r[0].Text)
				}
			}
		}
	}()
	x.analyzeLoops()
	x.checkLoopSpecs(blk)
	x.runRegion(nil, 0, s.clone(), regionCB{}, false)
	sig := fn.Signature
	dead := 0
	if blk != nil {
		if d, ok := blk.Flags["deadcode"]; ok {
			fmt.Sscanf(d, "%d", &dead)
		}
	}
	var covers []*Obligation
	for _, r := range x.rets {
		site := fmt.Sprintf("ret%d", r.idx+1)
		if ob := x.oblige("cover", site, r.pos, r.st, c.True(), "return site reachable"); ob != nil {
			ob.Cover = true
			ob.DeadGroup = shortFuncKey(fn)
			ob.DeadAllowed = dead
			covers = append(covers, ob)
		}
		if blk == nil {
			continue
		}
		// "exit" clauses: asserted at every return over the function's own locals,
		// not exported to callers
		for _, cl := range append(append([]*Clause(nil), blk.Of("ensures")...), blk.Of("exit")...) {
			env := x.ownEnv(r.st)
			env.res = r.vals
			for i := 0; i < sig.Results().Len(); i++ {
				env.resObj = append(env.resObj, sig.Results().At(i))
			}
			be := e.bind(cl, fn, nil, scopePos(fn, token.NoPos), sig, e.P.PkgOf(fn).Types, e.P.Fset)
			if be.err != nil {
				x.bindFail(cl, be.err)
				continue
			}
			env.info = be.info
			v := env.eval(be.expr)
			g, ok := v.(*Term)
			if !ok || g.Sort != Bool {
				why := "not boolean"
				if pv, isP := v.(PoisonV); isP {
					why = pv.Why
				}
				x.bindFail(cl, fmt.Errorf("postcondition cannot be evaluated: %s", why))
				continue
			}
			lbl := cl.Label
			if lbl == "" {
				lbl = "post"
			}
			x.oblige("post", lbl+"@"+site, r.pos, r.st, g, cl.Text)
		}
		x.checkFrame(blk, r, site)
		x.checkExitMonitors(r.st, blk, r.pos, site)
	}
	if len(x.rets) == 0 && (blk == nil || !blk.Has("noreturn")) {
		// a function none of whose paths return: every path panics or loops
	}
	// "focus <substr>, ...": a PARTIAL check of a function too large to bring
	// under a full contract: only the obligations whose name contains one of
	// the substrings are kept (e.g. the conformance preconditions of one
	// callee); the others are neither proved nor reported, which the evidence
	// lists as an assumption ("on executions that do not fail earlier").
	var focusCls []*Clause
	if blk != nil {
		// "focus [Cxx] ...": applies only while property Cxx is being checked;
		// unlabelled focus clauses always apply
		for _, cl := range blk.Of("focus") {
			if cl.Label == "" || cl.Label == e.CheckProp {
				focusCls = append(focusCls, cl)
			}
		}
	}
	if blk != nil && e.CheckProp != "" {
		// "onlyfor [Cxx] <substr>, ...": the matching obligations belong to property
		// Cxx alone; they are not generated while another property that also lists
		// this function is being checked (Read's value-level clauses are C06's, its
		// framing and memory clauses C04's)
		for _, cl := range blk.Of("onlyfor") {
			if cl.Label == "" || cl.Label == e.CheckProp {
				continue
			}
			kept := e.Obls[:start:start]
			for _, ob := range e.Obls[start:] {
				drop := false
				for _, it := range splitTop(cl.Text, ',') {
					if it = trim(it); it != "" && strings.Contains(ob.Name, it) {
						drop = true
					}
				}
				if !drop {
					kept = append(kept, ob)
				}
			}
			e.Obls = kept
		}
	}
	if len(focusCls) > 0 {
		var pats []string
		for _, cl := range focusCls {
			for _, it := range splitTop(cl.Text, ',') {
				if it = trim(it); it != "" {
					pats = append(pats, it)
				}
			}
		}
		kept := e.Obls[:start:start]
		dropped := 0
		for _, ob := range e.Obls[start:] {
			// loop invariants carry the focused facts around loops: always kept
			keep := ob.Kind == "inv-init" || ob.Kind == "inv-pres" || ob.Kind == "vacuous" || ob.Kind == "bind"
			for _, p := range pats {
				if strings.Contains(ob.Name, p) {
					keep = true
				}
			}
			if keep {
				kept = append(kept, ob)
			} else {
				dropped++
			}
		}
		e.Obls = kept
		e.Assumed[fmt.Sprintf("%s: PARTIAL check (focus %s): %d other obligations of this function (nil, bounds, panics, callee preconditions) are not checked; the focused ones hold on executions that do not fail earlier", shortFuncKey(fn), strings.Join(pats, ", "), dropped)] = true
	}
	return nil
}

func (x *exec) checkLoopSpecs(blk *Block) {
	if blk == nil {
		return
	}
	have := map[int]bool{}
	for _, li := range x.loops {
		have[li.ordinal] = true
	}
	for n, ls := range blk.Loops {
		if !have[n] {
			cl := &Clause{Kind: "loop", Text: fmt.Sprintf("loop %d", n), File: blk.File, Line: blk.Line}
			if len(ls.Clauses) > 0 {
				cl = ls.Clauses[0]
			}
			x.bindFail(cl, fmt.Errorf("contract names loop %d but the function has no such loop", n))
		}
	}
}

// frameInfo caches the evaluated modifies targets of the function under verification.
type frameInfo struct {
	all     bool
	targets []frameTarget
	ok      bool
}

func (x *exec) frameTargetsAll() *frameInfo {
	t := x.topExec()
	if t.frame != nil {
		return t.frame
	}
	e := x.e
	fi := &frameInfo{}
	t.frame = fi
	blk := t.contract
	if blk == nil || blk.Has("noframe") {
		fi.all = true
		return fi
	}
	cs, err := e.calleeScope(blk, t.fn, FuncKey(t.fn))
	if err != nil {
		fi.all = true
		return fi
	}
	for _, cl := range blk.Of("modifies") {
		for _, item := range splitTop(cl.Text, ',') {
			item = strings.TrimSpace(item)
			if item == "" {
				continue
			}
			if item == "*" {
				fi.all = true
				continue
			}
			if strings.HasPrefix(item, "heap:") {
				fi.targets = append(fi.targets, frameTarget{keyPrefix: strings.TrimPrefix(item, "heap:")})
				continue
			}
			wild := strings.Contains(item, "[_]") || strings.Contains(item, "[__]")
			sub := &Clause{Kind: "modifies", Text: wildText(item), File: cl.File, Line: cl.Line, Label: item + "#frame"}
			be := e.bindAddr(sub, cs)
			if be.err != nil {
				t.bindFail(cl, be.err)
				continue
			}
			env := t.calleeEnv(t.entry, t.entry, cs, t.args)
			env.info = be.info
			fi.targets = append(fi.targets, t.frameTargets(env, be, wild, cl)...)
		}
	}
	fi.ok = true
	return fi
}

// frameGoal returns the formula "heap key changed only at locations the
// contract's modifies clauses allow (or at objects allocated since entry)",
// or nil when no obligation is needed for key.
func (x *exec) frameGoal(key string, st *State) *Term {
	e := x.e
	c := e.C
	t := x.topExec()
	fi := x.frameTargetsAll()
	if fi.all || strings.HasPrefix(key, "chan#") {
		return nil
	}
	so := e.heapSorts[key]
	h1, ok := st.heap[key]
	if !ok {
		return nil
	}
	h0 := e.heapGet(t.entry, key, so)
	if h1 == h0 {
		return nil
	}
	next0 := t.entry.next
	rv := c.BoundVar("r", so.Idx)
	var allowed []*Term
	if so.Idx == Int {
		allowed = append(allowed, c.Le(next0, e.rootOf(rv))) // objects allocated by this call, their elements and sub-objects
	}
	var rowT []frameTarget
	for _, tg := range fi.targets {
		if tg.keyPrefix != "" {
			if keyMatches(tg.keyPrefix, key) {
				return nil
			}
			continue
		}
		if tg.key != key {
			continue
		}
		switch {
		case tg.row:
			rowT = append(rowT, tg)
		case tg.ref != nil:
			allowed = append(allowed, c.Eq(rv, tg.ref))
		default:
			return nil
		}
	}
	if len(rowT) > 0 && so.Elem.Kind == KArray {
		kv := c.BoundVar("k", so.Elem.Idx)
		var rowAllowed []*Term
		for _, tg := range rowT {
			rowAllowed = append(rowAllowed, c.And(c.Eq(rv, tg.ref), c.Le(tg.off, kv), c.Lt(kv, c.Add(tg.off, tg.ln))))
		}
		sel1 := c.Select(c.Select(h1, rv), kv)
		same := c.Eq(sel1, c.Select(c.Select(h0, rv), kv))
		return c.Quant("forall", []*Term{rv, kv}, c.Or(append(append([]*Term{same}, allowed...), rowAllowed...)...), [][]*Term{{sel1}})
	}
	sel1 := c.Select(h1, rv)
	same := c.Eq(sel1, c.Select(h0, rv))
	return c.Quant("forall", []*Term{rv}, c.Or(append([]*Term{same}, allowed...)...), [][]*Term{{sel1}})
}

func isFieldKey(key string) bool {
	return strings.Contains(key, ".") && !strings.HasPrefix(key, "A:") && !strings.HasPrefix(key, "box:") && !strings.HasPrefix(key, "map:") && !strings.HasPrefix(key, "ghost:") && !strings.HasPrefix(key, "global:")
}

// checkFrame: nothing to do at return sites -- every write was checked
// against the contract's modifies clauses where it happened (noteWrite).
func (x *exec) checkFrame(blk *Block, r retRec, site string) {}

// noteWrite raises the frame obligation of one write: the location is listed
// in the modifies clauses of the function under verification, or belongs to an
// object allocated since its entry.
func (x *exec) noteWrite(s *State, key string, w wtarget) {
	e := x.e
	c := e.C
	t := x.topExec()
	if t.contract == nil || strings.HasPrefix(key, "chan#") {
		return
	}
	fi := x.frameTargetsAll()
	if fi.all {
		return
	}
	if (w.kind == wRef && e.isFreshTerm(w.ref)) || (w.kind == wRow && e.isFreshTerm(w.arr)) {
		return
	}
	next0 := t.entry.next
	var allowed []*Term
	switch w.kind {
	case wRef:
		allowed = append(allowed, c.Le(next0, e.rootOf(w.ref)))
	case wRow:
		allowed = append(allowed, c.Le(next0, e.rootOf(w.arr)), c.Le(w.n, c.IntC(0)))
	}
	for _, tg := range fi.targets {
		if tg.keyPrefix != "" {
			if keyMatches(tg.keyPrefix, key) {
				return
			}
			continue
		}
		if tg.key != key && !(strings.HasPrefix(key, "map:") && strings.HasPrefix(tg.key, key)) {
			continue
		}
		switch {
		case tg.row:
			if w.kind == wRow {
				allowed = append(allowed, c.And(c.Eq(w.arr, tg.ref), c.Le(tg.off, w.lo), c.Le(c.Add(w.lo, w.n), c.Add(tg.off, tg.ln))))
			}
		case tg.ref != nil:
			if w.kind == wRef {
				allowed = append(allowed, c.Eq(w.ref, tg.ref))
			}
		default:
			return
		}
	}
	goal := c.Or(allowed...)
	if goal.IsTrue() {
		return
	}
	x.oblige("frame", shortHeapKey(key), x.pos, s, goal, "write to a location not listed in modifies ("+key+")")
}

func shortHeapKey(k string) string {
	k = strings.Replace(k, ModPath+"/", "", -1)
	return k
}

type frameTarget struct {
	keyPrefix string
	so        *Sort // sort of the heap array of key
	key       string
	ref       *Term
	arr       *Term
	off, ln   *Term
	row       bool
}

// frameTargets translates one modifies item into heap targets.
func (x *exec) frameTargets(env *specEnv, be *boundExpr, wild bool, cl *Clause) []frameTarget {
	e := x.e
	c := e.C
	var out []frameTarget
	ex := be.expr
	if call, ok := ex.(interface{}).(*astCall); ok {
		_ = call
	}
	if gk, ref, ok := env.ghostTarget(ex); ok {
		return []frameTarget{{key: gk, ref: ref}}
	}
	if !wild {
		p, err := env.addr(ex)
		if err != nil {
			x.bindFail(cl, err)
			return nil
		}
		var addPtr func(p PtrV)
		addPtr = func(p PtrV) {
			switch p.Kind {
			case PObj:
				st := structOf(p.T)
				for i := 0; i < st.NumFields(); i++ {
					addPtr(e.fieldAddr(p, i))
				}
			case PLeaf:
				for _, l := range e.leavesOf(p.T) {
					out = append(out, frameTarget{key: p.Key + l.comp, ref: p.Ref, so: Array(Int, l.sort)})
				}
			case PBox:
				for _, l := range e.leavesOf(p.T) {
					out = append(out, frameTarget{key: boxKey(p.T) + l.comp, ref: p.Ref, so: Array(Int, l.sort)})
				}
			case PElem:
				if structOf(p.T) != nil {
					addPtr(e.elemObj(p.Arr, p.Idx, p.T))
					return
				}
				for _, l := range e.leavesOf(p.T) {
					out = append(out, frameTarget{key: p.elemKeyOf() + l.comp, ref: p.Arr, off: p.Idx, ln: c.IntC(1), row: true, so: Array(Int, Array(Int, l.sort))})
				}
			case PElemObj:
				st := structOf(p.T)
				for i := 0; i < st.NumFields(); i++ {
					addPtr(e.fieldAddr(p, i))
				}
			}
		}
		addPtr(p)
		return out
	}
	base, el, fields, ok := env.wildParts(ex)
	if !ok {
		x.bindFail(cl, fmt.Errorf("unsupported wildcard form in modifies"))
		return nil
	}
	if structOf(el) == nil {
		for _, l := range e.leavesOf(el) {
			out = append(out, frameTarget{key: elemKey(el) + l.comp, ref: base.Arr, off: base.Off, ln: base.Len, row: true, so: Array(Int, Array(Int, l.sort))})
		}
		return out
	}
	for _, lp := range e.structLeaves(el) {
		if len(fields) > 0 {
			pre := "E:" + typeKey(el) + "." + structOf(el).Field(fields[0]).Name()
			if lp.key != pre && !strings.HasPrefix(lp.key, pre+"#") && !strings.HasPrefix(lp.key, pre+".") {
				continue
			}
		}
		out = append(out, frameTarget{key: lp.key, ref: base.Arr, off: base.Off, ln: base.Len, row: true, so: Array(Int, Array(Int, lp.sort))})
	}
	return out
}

type astCall struct{}
