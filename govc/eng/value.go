package eng

import (
	"fmt"
	"go/types"
	"math/big"

	"golang.org/x/tools/go/ssa"

	. "govc/term"
)

// Value is the symbolic value of a Go value.
type Value interface{}

// Scalar values are *Term directly.

type SliceV struct{ Arr, Off, Len, Cap *Term }
type IfaceV struct {
	Tag, Box *Term
	Ptr      *PtrV // boxed pointer that has no storable reference (points to a local)
}
type StructV struct{ F []Value }
type ArrayV struct {
	A     *Term   // Array Int τ when elements are scalar
	Elems []Value // otherwise
}
type TupleV []Value
type FuncV struct {
	Fn     *ssa.Function
	Bind   []Value
	Opaque *Term // identity of an unknown function value (Int)
	Nil    *Term
}
type PoisonV struct{ Why string }

// PtrV is a pointer.
type PtrV struct {
	Kind PtrKind
	Ref  *Term      // PObj, PBox, PLeaf: reference (0 = nil for PObj/PBox)
	T    types.Type // pointee type
	Key  string     // PLeaf: heap key prefix; PElem: key override (leaf of a struct element); PElemObj: key prefix
	Arr  *Term      // PElem, PArr
	Idx  *Term      // PElem
	Cell *Cell      // PCell
	Path []Sel      // PCell
}

type PtrKind int

const (
	PObj  PtrKind = iota // struct object in the heap at Ref
	PBox                 // non-struct value in the heap at Ref ("box:<T>")
	PLeaf                // non-struct field of a heap struct: heap[Key][Ref]
	PElem                // element Idx of backing array Arr (non-struct element)
	PArr                 // whole backing array Arr viewed as *[N]T
	PCell                // local variable (possibly a sub-part)
	PElemObj             // struct (or nested sub-struct) inside element Idx of backing array Arr; Key = heap key prefix
)

type Sel struct {
	Field int
	Index *Term // non-nil: array index
}

type Cell struct {
	Name string
	T    types.Type
	ID   int
}

// ---- type classification ----

type Rep int

const (
	RBool Rep = iota
	RInt
	RByte
	RStr
	RFlt
	RPtr
	RSlice
	RStruct
	RArray
	RIface
	RMap
	RChan
	RFunc
	RTuple
	RUnsup
)

func repOf(t types.Type) Rep {
	switch u := t.Underlying().(type) {
	case *types.Basic:
		switch {
		case u.Kind() == types.Bool || u.Kind() == types.UntypedBool:
			return RBool
		case u.Kind() == types.Uint8:
			return RByte
		case u.Info()&types.IsInteger != 0:
			return RInt
		case u.Info()&types.IsString != 0:
			return RStr
		case u.Info()&types.IsFloat != 0:
			return RFlt
		case u.Kind() == types.UnsafePointer:
			return RInt
		case u.Kind() == types.UntypedNil:
			return RPtr
		case u.Info()&types.IsComplex != 0:
			return RFlt
		}
	case *types.Pointer:
		return RPtr
	case *types.Slice:
		return RSlice
	case *types.Struct:
		return RStruct
	case *types.Array:
		return RArray
	case *types.Interface:
		return RIface
	case *types.Map:
		return RMap
	case *types.Chan:
		return RChan
	case *types.Signature:
		return RFunc
	case *types.Tuple:
		return RTuple
	case *types.TypeParam:
		return RUnsup
	}
	return RUnsup
}

func sortOfScalar(t types.Type) *Sort {
	switch repOf(t) {
	case RBool:
		return Bool
	case RInt, RMap, RChan:
		return Int
	case RByte:
		return BV8
	case RStr:
		return Str
	case RFlt:
		return Flt
	}
	return nil
}

// intRange returns the inclusive range of an integer type (64-bit platform).
func intRange(t types.Type) (lo, hi *big.Int, ok bool) {
	b, isB := t.Underlying().(*types.Basic)
	if !isB {
		return nil, nil, false
	}
	bits := 0
	signed := false
	switch b.Kind() {
	case types.Int8:
		bits, signed = 8, true
	case types.Int16:
		bits, signed = 16, true
	case types.Int32:
		bits, signed = 32, true
	case types.Int64, types.Int, types.UntypedInt, types.UntypedRune:
		bits, signed = 64, true
	case types.Uint8:
		bits = 8
	case types.Uint16:
		bits = 16
	case types.Uint32:
		bits = 32
	case types.Uint64, types.Uint, types.Uintptr:
		bits = 64
	default:
		return nil, nil, false
	}
	one := big.NewInt(1)
	if signed {
		hi = new(big.Int).Sub(new(big.Int).Lsh(one, uint(bits-1)), one)
		lo = new(big.Int).Neg(new(big.Int).Lsh(one, uint(bits-1)))
	} else {
		lo = big.NewInt(0)
		hi = new(big.Int).Sub(new(big.Int).Lsh(one, uint(bits)), one)
	}
	return lo, hi, true
}

func typeKey(t types.Type) string {
	return types.TypeString(t, func(p *types.Package) string { return p.Path() })
}

// elemKey is the heap key for slice elements of type t; basic element types are
// keyed by their underlying kind so that []byte, Bitmap and hash.Hash share it.
// basicName is the canonical name of a basic type (byte and uint8, rune and
// int32 are the same type).
func basicName(b *types.Basic) string {
	if int(b.Kind()) < len(types.Typ) && types.Typ[b.Kind()] != nil {
		return types.Typ[b.Kind()].Name()
	}
	return b.Name()
}

func elemKey(t types.Type) string {
	if b, ok := t.Underlying().(*types.Basic); ok {
		return "A:" + basicName(b)
	}
	if _, ok := t.Underlying().(*types.Pointer); ok {
		return "A:ptr"
	}
	if _, ok := t.Underlying().(*types.Interface); ok {
		return "A:iface"
	}
	if _, ok := t.Underlying().(*types.Slice); ok {
		return "A:slice"
	}
	return "A:" + typeKey(t)
}

func boxKey(t types.Type) string {
	if b, ok := t.Underlying().(*types.Basic); ok {
		return "box:" + basicName(b)
	}
	if s, ok := t.Underlying().(*types.Slice); ok {
		return "box:[]" + elemKey(s.Elem())
	}
	return "box:" + typeKey(t)
}

func structOf(t types.Type) *types.Struct {
	s, _ := t.Underlying().(*types.Struct)
	return s
}

func fieldKey(t types.Type, i int) string {
	st := structOf(t)
	name := typeKey(t)
	if _, ok := t.(*types.Named); !ok {
		if _, ok := t.(*types.Alias); !ok {
			name = fmt.Sprintf("struct%p", st)
		}
	}
	return name + "." + st.Field(i).Name()
}

func isNamedStructPtr(t types.Type) bool {
	if p, ok := t.Underlying().(*types.Pointer); ok {
		return structOf(p.Elem()) != nil
	}
	return false
}
