package eng

import (
	"go/token"
	"go/types"
	"strings"

	"golang.org/x/tools/go/ssa"

	. "govc/term"
)

type nativeFn func(x *exec, s *State, fn *ssa.Function, args []Value, pos token.Pos) Value

var natives map[string]nativeFn

func init() {
	natives = map[string]nativeFn{
		"errors.New":                 nativeNewError,
		"fmt.Errorf":                 nativeNewError,
		"time.Sleep":                 nativeNop,
		"runtime.Gosched":            nativeNop,
		"log.Printf":                 nativeNop,
		"log.Println":                nativeNop,
		"log.Print":                  nativeNop,
		"log.(*Logger).Printf":       nativeNop,
		"log.(*Logger).Println":      nativeNop,
		"log.(*Logger).Print":        nativeNop,
		"math/bits.OnesCount8":       nativeOnesCount8,
		"math/bits.TrailingZeros8":   nativeTrailingZeros8,
		"sync.(*Mutex).Lock":         nativeLock(true),
		"sync.(*Mutex).Unlock":       nativeUnlock(true),
		"sync.(*Mutex).TryLock":      nil,
		"sync.(*RWMutex).Lock":       nativeLock(true),
		"sync.(*RWMutex).Unlock":     nativeUnlock(true),
		"sync.(*RWMutex).RLock":      nativeLock(false),
		"sync.(*RWMutex).RUnlock":    nativeUnlock(false),
		"sync/atomic.LoadUint32":     nativeAtomicLoad,
		"sync/atomic.LoadInt32":      nativeAtomicLoad,
		"sync/atomic.LoadInt64":      nativeAtomicLoad,
		"sync/atomic.LoadUint64":     nativeAtomicLoad,
		"sync/atomic.StoreUint32":    nativeAtomicStore,
		"sync/atomic.StoreInt32":     nativeAtomicStore,
		"sync/atomic.StoreInt64":     nativeAtomicStore,
		"sync/atomic.StoreUint64":    nativeAtomicStore,
		"sync/atomic.AddInt64":       nativeAtomicAdd,
		"sync/atomic.AddInt32":       nativeAtomicAdd,
		"sync/atomic.AddUint32":      nativeAtomicAdd,
		"sync/atomic.AddUint64":      nativeAtomicAdd,
		"sync/atomic.CompareAndSwapUint32": nativeCAS,
		"sync/atomic.CompareAndSwapInt32":  nativeCAS,
		"sync/atomic.CompareAndSwapInt64":  nativeCAS,
	}
	delete(natives, "sync.(*Mutex).TryLock")
}

func nativeNop(x *exec, s *State, fn *ssa.Function, args []Value, pos token.Pos) Value {
	return nil
}

func (e *Engine) errorTag() *Term {
	return e.C.IntC(int64(e.tagOfName("*errors.errorString")))
}

func (e *Engine) tagOfName(k string) int {
	id, ok := e.typeTags[k]
	if !ok {
		id = len(e.typeTags) + 1
		e.typeTags[k] = id
	}
	return id
}

func nativeNewError(x *exec, s *State, fn *ssa.Function, args []Value, pos token.Pos) Value {
	e := x.e
	r := e.newRef(s, "err")
	s.alloc = e.C.Add(s.alloc, e.C.IntC(64))
	x.noteAlloc(s, pos, "error")
	return IfaceV{Tag: e.errorTag(), Box: r}
}

func nativeOnesCount8(x *exec, s *State, fn *ssa.Function, args []Value, pos token.Pos) Value {
	c := x.e.C
	v, ok := args[0].(*Term)
	if !ok {
		return PoisonV{"OnesCount8"}
	}
	sum := c.IntC(0)
	for k := 0; k < 8; k++ {
		sum = c.Add(sum, c.Ite(c.Eq(c.BVBin("bvand", v, c.BVC(1<<uint(k))), c.BVC(0)), c.IntC(0), c.IntC(1)))
	}
	return sum
}

func nativeTrailingZeros8(x *exec, s *State, fn *ssa.Function, args []Value, pos token.Pos) Value {
	c := x.e.C
	v, ok := args[0].(*Term)
	if !ok {
		return PoisonV{"TrailingZeros8"}
	}
	r := c.IntC(8)
	for k := 7; k >= 0; k-- {
		r = c.Ite(c.Eq(c.BVBin("bvand", v, c.BVC(1<<uint(k))), c.BVC(0)), r, c.IntC(int64(k)))
	}
	return r
}

func nativeAtomicLoad(x *exec, s *State, fn *ssa.Function, args []Value, pos token.Pos) Value {
	p, ok := args[0].(PtrV)
	if !ok {
		return PoisonV{"atomic load"}
	}
	x.nilCheck(s, p, pos)
	// Outside a critical section another goroutine may have changed the value:
	// the result is arbitrary unless the location is protected by a held lock.
	if x.protectedAndHeld(s, p) || !x.sharedLocation(p) {
		return x.e.load(s, p)
	}
	return x.e.fresh(p.T, "atomic", s)
}

func nativeAtomicStore(x *exec, s *State, fn *ssa.Function, args []Value, pos token.Pos) Value {
	p, ok := args[0].(PtrV)
	if !ok {
		return PoisonV{"atomic store"}
	}
	x.nilCheck(s, p, pos)
	x.lockset(s, p, true, pos)
	if err := x.e.store(s, p, args[1]); err != nil {
		x.e.unsupported("atomic store: %v", err)
	}
	return nil
}

func nativeAtomicAdd(x *exec, s *State, fn *ssa.Function, args []Value, pos token.Pos) Value {
	e := x.e
	p, ok := args[0].(PtrV)
	if !ok {
		return PoisonV{"atomic add"}
	}
	x.nilCheck(s, p, pos)
	cur, _ := e.load(s, p).(*Term)
	d, _ := args[1].(*Term)
	if cur == nil || d == nil {
		return PoisonV{"atomic add"}
	}
	nv := e.wrap1(e.C.Add(cur, d), p.T)
	e.store(s, p, nv)
	return nv
}

func nativeCAS(x *exec, s *State, fn *ssa.Function, args []Value, pos token.Pos) Value {
	e := x.e
	c := e.C
	p, ok := args[0].(PtrV)
	if !ok {
		return PoisonV{"cas"}
	}
	x.nilCheck(s, p, pos)
	x.lockset(s, p, true, pos)
	cur, _ := e.load(s, p).(*Term)
	o, _ := args[1].(*Term)
	n, _ := args[2].(*Term)
	if cur == nil || o == nil || n == nil {
		return PoisonV{"cas"}
	}
	okT := c.Eq(cur, o)
	e.store(s, p, c.Ite(okT, n, cur))
	return okT
}

// sharedLocation: heap locations may be changed by other goroutines; locals not.
func (x *exec) sharedLocation(p PtrV) bool {
	return p.Kind != PCell
}

func (e *Engine) lockKeyOf(p PtrV) string {
	switch p.Kind {
	case PObj:
		// sync.Mutex is itself a struct: the address is sub:<T.f>(ref)
		if p.Ref.Op == "app" && strings.HasPrefix(p.Ref.Name, "sub:") {
			if k, ok := e.subNames[p.Ref.Name]; ok {
				return k
			}
			return p.Ref.Name[4:]
		}
	case PLeaf:
		return p.Key
	}
	return ""
}

func nativeLock(write bool) nativeFn {
	return func(x *exec, s *State, fn *ssa.Function, args []Value, pos token.Pos) Value {
		p, ok := args[0].(PtrV)
		if !ok {
			return nil
		}
		x.monitorLock(s, p, write, pos)
		return nil
	}
}

func nativeUnlock(write bool) nativeFn {
	return func(x *exec, s *State, fn *ssa.Function, args []Value, pos token.Pos) Value {
		p, ok := args[0].(PtrV)
		if !ok {
			return nil
		}
		x.monitorUnlock(s, p, write, pos)
		return nil
	}
}

var _ = types.Identical
