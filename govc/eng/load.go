package eng

import (
	"fmt"
	"go/ast"
	"go/token"
	"go/types"
	"os"
	"path/filepath"
	"sort"
	"strings"

	"golang.org/x/tools/go/packages"
	"golang.org/x/tools/go/ssa"
	"golang.org/x/tools/go/ssa/ssautil"
)

const ModPath = "github.com/jech/storrent"

type Program struct {
	Repo     string
	VerifDir string
	Fset     *token.FileSet
	Pkgs     map[string]*packages.Package // by import path
	SSA      *ssa.Program
	SPkgs    map[string]*ssa.Package
	Blocks   []*Block
	// contracts by function full name (ssa String())
	Contracts map[string]*Block
	Specs     map[string]*Block // spec functions by "pkgpath.name" and by bare name
	Monitors  []*Block
	LoadErrs  []string
	funcByKey map[string]*ssa.Function
	// Source overlay used (for mutants)
	Overlay   map[string][]byte
	stubNames map[string]string
	stubCache map[string]*calleeScope
}

// externStub returns the scope of the stub function carrying an extern's signature.
func (p *Program) externStub(key string) *calleeScope {
	if cs, ok := p.stubCache[key]; ok {
		return cs
	}
	if p.stubCache == nil {
		p.stubCache = map[string]*calleeScope{}
	}
	name, ok := p.stubNames[key]
	if !ok {
		return nil
	}
	pk := p.Pkgs[ModPath]
	if k := strings.Index(key, "|"); k >= 0 {
		pk = p.Pkgs[key[:k]]
	}
	if pk == nil {
		return nil
	}
	var out *calleeScope
	for _, f := range pk.Syntax {
		for _, d := range f.Decls {
			fd, ok := d.(*ast.FuncDecl)
			if !ok || fd.Name.Name != name || fd.Body == nil {
				continue
			}
			obj := pk.TypesInfo.Defs[fd.Name].(*types.Func)
			sig := obj.Type().(*types.Signature)
			cs := &calleeScope{pkg: pk.Types, pos: fd.Body.Rbrace, sig: sig}
			for i := 0; i < sig.Params().Len(); i++ {
				cs.params = append(cs.params, sig.Params().At(i))
			}
			for i := 0; i < sig.Results().Len(); i++ {
				cs.resObj = append(cs.resObj, sig.Results().At(i))
			}
			out = cs
		}
	}
	p.stubCache[key] = out
	return out
}

const vocabPrelude = `
func old_[T any](x T) T              { return x }
func atlock_[T any](x T) T           { return x }
func implies_(a, b bool) bool        { return !a || b }
func iff_(a, b bool) bool            { return a == b }
func ite_[T any](c bool, a, b T) T   { if c { return a }; return b }
func forall_[F any](f F) bool        { return true }
func exists_[F any](f F) bool        { return true }
func result_[T any](i int) T         { var z T; return z }
func wild_() int                     { return 0 }
func wildcap_() int                  { return 0 }
func rangeidx_() int                 { return 0 }
func rangeidxn_(n int) int           { return 0 }
func alloc_() int                    { return 0 }
func ref_(x any) int                 { return 0 }
func pointee_(x any) int             { return 0 }
func fresh_[T any](x T) bool          { return true }
func samearr_[T any](a, b T) bool     { return true }
func existing_[T any](x T) bool       { return true }
func samerow_[T any](a, b T) bool     { return true }
func typeis_[T any](x any) bool       { return true }
func as_[T any](x any) T              { var z T; return z }
func closed_[T any](ch T) bool        { return true }
func lastrecv_[T any](ch T) bool      { return true }
func closedhere_[T any](ch T) bool    { return true }
func holds_[T any](ch T) bool         { return true }
func safe_(s string) bool             { return true }
`

// specDecl renders a spec block as a Go function declaration.
func specDecl(b *Block) string {
	h := strings.TrimSpace(b.Header)
	if bd := b.Of("body"); len(bd) > 0 {
		d, err := Desugar(bd[0].Text)
		if err != nil {
			d = "false /* " + err.Error() + " */"
		}
		return "func " + h + " { return " + d + " }\n"
	}
	if strings.Contains(h, "{") {
		return "func " + h + "\n"
	}
	return "func " + h + " { panic(\"spec\") }\n"
}

func usedImports(imports map[string]bool, text string) []string {
	var is []string
	for i := range imports {
		path := strings.Trim(i, "\"")
		name := path
		if k := strings.LastIndex(path, "/"); k >= 0 {
			name = path[k+1:]
		}
		if f := strings.Fields(i); len(f) == 2 {
			name = f[0]
		}
		if strings.Contains(text, name+".") {
			is = append(is, i)
		}
	}
	sort.Strings(is)
	return is
}

// Load loads the repo with contracts. extraOverlay replaces source files
// (used by the must-fail corpus).
func Load(repo, verifDir string, extraOverlay map[string][]byte) (*Program, error) {
	p := &Program{Repo: repo, VerifDir: verifDir, Contracts: map[string]*Block{}, Specs: map[string]*Block{}, funcByKey: map[string]*ssa.Function{}}
	overlay := map[string][]byte{}
	for k, v := range extraOverlay {
		overlay[k] = v
	}
	// contracts in repo
	byPkgDir := map[string][]*Block{}
	for _, f := range FindContractFiles(repo) {
		dir := filepath.Dir(f)
		rel, _ := filepath.Rel(repo, dir)
		pkg := ModPath
		if rel != "." {
			pkg = ModPath + "/" + filepath.ToSlash(rel)
		}
		var bl []*Block
		var err error
		if ov, ok := overlay[f]; ok {
			bl, err = ParseContractText(string(ov), f, pkg, false)
		} else {
			bl, err = ParseContractFile(f, pkg, false)
		}
		if err != nil {
			return nil, err
		}
		p.Blocks = append(p.Blocks, bl...)
		byPkgDir[dir] = append(byPkgDir[dir], bl...)
	}
	// externs in verifDir/externs/*.spec : blocks "extern <pkgpath>.<Func>" and "spec" blocks
	exts, _ := filepath.Glob(filepath.Join(verifDir, "externs", "*.spec"))
	sort.Strings(exts)
	var commonSpecs []*Block
	for _, f := range exts {
		bl, err := ParseContractFile(f, "", true)
		if err != nil {
			return nil, err
		}
		for _, b := range bl {
			if b.Kind == "spec" {
				commonSpecs = append(commonSpecs, b)
			}
		}
		p.Blocks = append(p.Blocks, bl...)
	}
	// vocabulary overlay per package dir that has contracts
	localStubs := 0
	for dir, bl := range byPkgDir {
		name, err := packageNameOfDir(dir, overlay)
		if err != nil {
			return nil, err
		}
		var sb strings.Builder
		sb.WriteString("//go:build verif\n\npackage " + name + "\n\n")
		imports := map[string]bool{}
		var decls []string
		uses := map[string]bool{}
		for _, b := range bl {
			if b.Kind == "use" {
				for _, u := range strings.Fields(b.Header) {
					uses[u] = true
				}
			}
		}
		add := func(b *Block) {
			for _, c := range b.Of("import") {
				imports[strings.TrimSpace(c.Text)] = true
			}
			decls = append(decls, specDecl(b))
		}
		declared := map[string]bool{}
		for _, b := range bl {
			if b.Kind == "spec" {
				add(b)
				declared[b.Name] = true
			}
			if b.Kind == "monitor" {
				for _, c := range b.Of("import") {
					imports[strings.TrimSpace(c.Text)] = true
				}
				if sg := b.Of("sig"); len(sg) > 0 {
					localStubs++
					name := fmt.Sprintf("LStub_%d", localStubs)
					if p.stubNames == nil {
						p.stubNames = map[string]string{}
					}
					p.stubNames[b.Pkg+"|monitor:"+b.Name] = name
					decls = append(decls, "func "+name+strings.TrimPrefix(strings.TrimSpace(sg[0].Text), "func")+" { panic(0) }\n")
				}
			}
			for _, c := range b.Of("ghostvar") {
				decls = append(decls, "var "+strings.TrimSpace(c.Text)+"\n")
			}
			if b.Kind == "extern" {
				// package-local assumed contract of an external function
				b.Extern = true
				for _, c := range b.Of("import") {
					imports[strings.TrimSpace(c.Text)] = true
				}
				if sg := b.Of("sig"); len(sg) > 0 {
					localStubs++
					name := fmt.Sprintf("LStub_%d", localStubs)
					if p.stubNames == nil {
						p.stubNames = map[string]string{}
					}
					p.stubNames[b.Pkg+"|"+b.Name] = name
					decls = append(decls, "func "+name+strings.TrimPrefix(strings.TrimSpace(sg[0].Text), "func")+" { panic(0) }\n")
				}
			}
		}
		{
			var gc []string
			for _, b := range bl {
				if b.Kind == "ghostimport" {
					imports[strings.TrimSpace(b.Header)] = true
				}
				if b.Kind == "ghostcode" {
					gc = append(gc, b.Header)
				}
			}
			if len(gc) > 0 {
				decls = append(decls, strings.Join(gc, "\n")+"\n")
			}
		}
		for _, b := range commonSpecs {
			// a common spec is injected into a package when the package says "use <group>"
			grp := b.Flags["group"]
			if uses[grp] && !declared[b.Name] {
				add(b)
				declared[b.Name] = true
			}
		}
		for _, i := range usedImports(imports, strings.Join(decls, "")) {
			sb.WriteString("import " + i + "\n")
		}
		sb.WriteString(vocabPrelude)
		for _, d := range decls {
			sb.WriteString(d)
		}
		overlay[filepath.Join(dir, "zz_vocab_verif.go")] = []byte(sb.String())
	}
	// stub signatures for extern contracts live in the root package (overlay only)
	{
		var sb strings.Builder
		sb.WriteString("//go:build verif\n\npackage main\n\n")
		imports := map[string]bool{}
		var decls []string
		if p.stubNames == nil {
			p.stubNames = map[string]string{}
		}
		n := 0
		for _, b := range p.Blocks {
			if !b.Extern {
				continue
			}
			if b.Kind == "extern" && b.Pkg != "" && p.stubNames[b.Pkg+"|"+b.Name] != "" {
				continue // package-local: its stub lives in that package's vocabulary file
			}
			for _, c := range b.Of("import") {
				imports[strings.TrimSpace(c.Text)] = true
			}
			switch b.Kind {
			case "spec":
				decls = append(decls, specDecl(b))
			case "extern":
				sg := b.Of("sig")
				if len(sg) == 0 {
					continue
				}
				n++
				name := fmt.Sprintf("Stub_%d", n)
				p.stubNames[b.Name] = name
				decls = append(decls, "func "+name+strings.TrimPrefix(strings.TrimSpace(sg[0].Text), "func")+" { panic(0) }\n")
			}
		}
		for _, i := range usedImports(imports, strings.Join(decls, "")) {
			sb.WriteString("import " + i + "\n")
		}
		sb.WriteString(vocabPrelude)
		for _, d := range decls {
			sb.WriteString(d)
		}
		if _, clash := overlay[filepath.Join(repo, "zz_vocab_verif.go")]; !clash {
			overlay[filepath.Join(repo, "zz_externstubs_verif.go")] = []byte(sb.String())
		}
	}
	p.Overlay = overlay
	cfg := &packages.Config{
		Mode:       packages.LoadAllSyntax,
		Dir:        repo,
		BuildFlags: []string{"-tags=verif"},
		Overlay:    overlay,
		Env:        append(os.Environ(), "GOFLAGS=-mod=mod", "GOPROXY=off", "GOSUMDB=off", "GOTOOLCHAIN=local"),
	}
	pkgs, err := packages.Load(cfg, "./...")
	if err != nil {
		return nil, err
	}
	p.Pkgs = map[string]*packages.Package{}
	for _, pk := range pkgs {
		p.Pkgs[pk.PkgPath] = pk
		for _, e := range pk.Errors {
			msg := e.Error()
			p.LoadErrs = append(p.LoadErrs, msg)
		}
	}
	if len(pkgs) > 0 {
		p.Fset = pkgs[0].Fset
	}
	prog, _ := ssautil.AllPackages(pkgs, ssa.NaiveForm|ssa.InstantiateGenerics)
	p.SSA = prog
	p.SPkgs = map[string]*ssa.Package{}
	for _, pk := range pkgs {
		sp := prog.Package(pk.Types)
		if sp == nil {
			continue
		}
		sp.Build()
		p.SPkgs[pk.PkgPath] = sp
	}
	// index blocks
	for _, b := range p.Blocks {
		switch b.Kind {
		case "func":
			p.Contracts[b.Pkg+"."+b.Name] = b
		case "extern":
			if b.Pkg != "" {
				p.Contracts[b.Pkg+"|"+b.Name] = b
			} else {
				p.Contracts[b.Name] = b
			}
		case "spec":
			if b.Pkg != "" {
				p.Specs[b.Pkg+"."+b.Name] = b
			}
			if _, ok := p.Specs[b.Name]; !ok || b.Pkg == "" {
				p.Specs[b.Name] = b
			}
		case "monitor":
			p.Monitors = append(p.Monitors, b)
		}
	}
	return p, nil
}

func packageNameOfDir(dir string, overlay map[string][]byte) (string, error) {
	ents, err := os.ReadDir(dir)
	if err != nil {
		return "", err
	}
	for _, e := range ents {
		n := e.Name()
		if !strings.HasSuffix(n, ".go") || strings.HasSuffix(n, "_test.go") || strings.HasPrefix(n, "zz_") {
			continue
		}
		data, err := os.ReadFile(filepath.Join(dir, n))
		if err != nil {
			continue
		}
		for _, line := range strings.Split(string(data), "\n") {
			line = strings.TrimSpace(line)
			if strings.HasPrefix(line, "package ") {
				return strings.Fields(line)[1], nil
			}
		}
	}
	return "", fmt.Errorf("no package clause found in %s", dir)
}

// FuncKey gives the canonical contract key of an ssa function:
// "<pkgpath>.Name", "<pkgpath>.(*T).Name", "<pkgpath>.(T).Name", closures "<parent>$n".
func FuncKey(fn *ssa.Function) string {
	if o := fn.Origin(); o != nil && o != fn {
		// instance of a generic function: keyed by its origin
		return FuncKey(o)
	}
	if fn.Parent() != nil {
		par := fn.Parent()
		for i, a := range par.AnonFuncs {
			if a == fn {
				return fmt.Sprintf("%s$%d", FuncKey(par), i+1)
			}
		}
		return FuncKey(par) + "$?"
	}
	pkg := ""
	if fn.Pkg != nil {
		pkg = fn.Pkg.Pkg.Path()
	} else if fn.Object() != nil && fn.Object().Pkg() != nil {
		pkg = fn.Object().Pkg().Path()
	}
	if recv := fn.Signature.Recv(); recv != nil {
		t := recv.Type()
		star := ""
		if pt, ok := t.(*types.Pointer); ok {
			t = pt.Elem()
			star = "*"
		}
		tn := "?"
		if nt, ok := t.(*types.Named); ok {
			tn = nt.Obj().Name()
			if nt.Obj().Pkg() != nil {
				pkg = nt.Obj().Pkg().Path()
			}
		}
		return fmt.Sprintf("%s.(%s%s).%s", pkg, star, tn, fn.Name())
	}
	return pkg + "." + fn.Name()
}

// LookupFunc finds the ssa function for a contract block name within a package.
func (p *Program) LookupFunc(pkgPath, name string) *ssa.Function {
	key := pkgPath + "." + name
	if f, ok := p.funcByKey[key]; ok {
		return f
	}
	sp := p.SPkgs[pkgPath]
	if sp == nil {
		return nil
	}
	var find func(base string) *ssa.Function
	find = func(base string) *ssa.Function {
		if k := strings.LastIndex(base, "$"); k >= 0 {
			par := find(base[:k])
			if par == nil {
				return nil
			}
			var n int
			fmt.Sscanf(base[k+1:], "%d", &n)
			if n >= 1 && n <= len(par.AnonFuncs) {
				return par.AnonFuncs[n-1]
			}
			return nil
		}
		if strings.HasPrefix(base, "(") {
			k := strings.Index(base, ").")
			if k < 0 {
				return nil
			}
			tn := strings.TrimPrefix(base[1:k], "*")
			ptr := strings.HasPrefix(base[1:k], "*")
			mn := base[k+2:]
			tm, ok := sp.Members[tn].(*ssa.Type)
			if !ok {
				return nil
			}
			var T types.Type = tm.Type()
			if ptr {
				T = types.NewPointer(T)
			}
			ms := p.SSA.MethodSets.MethodSet(T)
			for i := 0; i < ms.Len(); i++ {
				if ms.At(i).Obj().Name() == mn {
					fn := p.SSA.MethodValue(ms.At(i))
					// reject promoted wrappers for value receivers when ptr requested
					if fn != nil && fn.Synthetic == "" {
						return fn
					}
					if fn != nil && !ptr {
						return fn
					}
				}
			}
			return nil
		}
		if f, ok := sp.Members[base].(*ssa.Function); ok {
			return f
		}
		return nil
	}
	f := find(name)
	p.funcByKey[key] = f
	return f
}

// FuncDecl finds the AST declaration of fn (or the FuncLit for closures).
func (p *Program) FuncSyntax(fn *ssa.Function) ast.Node {
	return fn.Syntax()
}

func (p *Program) PkgOf(fn *ssa.Function) *packages.Package {
	for f := fn; f != nil; f = f.Parent() {
		if f.Pkg != nil {
			return p.Pkgs[f.Pkg.Pkg.Path()]
		}
	}
	return nil
}

func (p *Program) Pos(pos token.Pos) string {
	if !pos.IsValid() {
		return "-"
	}
	ps := p.Fset.Position(pos)
	rel, err := filepath.Rel(p.Repo, ps.Filename)
	if err != nil {
		rel = ps.Filename
	}
	return fmt.Sprintf("%s:%d", rel, ps.Line)
}

// AllFuncs lists the functions (including methods and closures) of repo
// packages whose path ends with suffix.
func (p *Program) AllFuncs(suffix string) []*ssa.Function {
	var out []*ssa.Function
	seen := map[*ssa.Function]bool{}
	var add func(fn *ssa.Function)
	add = func(fn *ssa.Function) {
		if fn == nil || seen[fn] || fn.Blocks == nil || fn.Synthetic != "" {
			return
		}
		seen[fn] = true
		out = append(out, fn)
		for _, a := range fn.AnonFuncs {
			add(a)
		}
	}
	var paths []string
	for path := range p.SPkgs {
		paths = append(paths, path)
	}
	sort.Strings(paths)
	for _, path := range paths {
		if !strings.HasPrefix(path, ModPath) || !strings.HasSuffix(path, suffix) {
			continue
		}
		sp := p.SPkgs[path]
		var names []string
		for n := range sp.Members {
			names = append(names, n)
		}
		sort.Strings(names)
		for _, n := range names {
			switch m := sp.Members[n].(type) {
			case *ssa.Function:
				add(m)
			case *ssa.Type:
				for _, T := range []types.Type{m.Type(), types.NewPointer(m.Type())} {
					ms := p.SSA.MethodSets.MethodSet(T)
					for i := 0; i < ms.Len(); i++ {
						add(p.SSA.MethodValue(ms.At(i)))
					}
				}
			}
		}
	}
	sort.SliceStable(out, func(i, j int) bool { return out[i].Pos() < out[j].Pos() })
	return out
}
