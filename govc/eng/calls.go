package eng

import (
	"fmt"
	"go/token"
	"go/types"
	"strings"

	"golang.org/x/tools/go/ssa"

	. "govc/term"
)

func (x *exec) doCall(s *State, cc *ssa.CallCommon, pos token.Pos, instr ssa.Instruction) Value {
	e := x.e
	var args []Value
	for _, a := range cc.Args {
		args = append(args, x.val(a, s))
	}
	resT := cc.Signature().Results()
	if cc.IsInvoke() {
		recv, ok := x.val(cc.Value, s).(IfaceV)
		if !ok {
			return x.defaultCall(s, "invoke "+cc.Method.FullName(), args, cc.Signature(), pos)
		}
		x.oblige("nil", "", pos, s, e.C.Ne(recv.Tag, e.C.IntC(0)), "method call on nil interface")
		// known dynamic type?
		if recv.Tag.Op == "int" {
			if dt, ok := e.tagTypes[int(recv.Tag.IVal.Int64())]; ok {
				ms := e.P.SSA.MethodSets.MethodSet(dt)
				if sel := ms.Lookup(cc.Method.Pkg(), cc.Method.Name()); sel != nil {
					if fn := e.P.SSA.MethodValue(sel); fn != nil {
						rv := x.unbox(s, recv, dt)
						return x.callFunc(s, fn, append([]Value{rv}, args...), nil, pos)
					}
				}
			}
		}
		key := invokeKey(cc)
		x.beforeCallAsserts(s, key, pos)
		if blk, k2 := x.lookupContract(key); blk != nil {
			return x.applyContract(s, blk, nil, append([]Value{recv}, args...), pos, k2, cc.Signature())
		}
		return x.defaultCall(s, key, append([]Value{recv}, args...), cc.Signature(), pos)
	}
	switch callee := cc.Value.(type) {
	case *ssa.Builtin:
		return x.builtin(s, callee.Name(), args, cc, pos)
	case *ssa.Function:
		return x.callFunc(s, callee, args, nil, pos)
	case *ssa.MakeClosure:
		var bind []Value
		for _, b := range callee.Bindings {
			bind = append(bind, x.val(b, s))
		}
		return x.callFunc(s, callee.Fn.(*ssa.Function), args, bind, pos)
	}
	fv := x.val(cc.Value, s)
	if f, ok := fv.(FuncV); ok && f.Fn != nil {
		return x.callFunc(s, f.Fn, args, f.Bind, pos)
	}
	// call through an unknown function value: callback rule
	return x.callbackCall(s, fv, args, resT, pos)
}

func invokeKey(cc *ssa.CallCommon) string {
	t := cc.Value.Type()
	name := typeKey(t)
	if nt, ok := t.(*types.Named); ok && nt.Obj().Pkg() != nil {
		return fmt.Sprintf("%s.(%s).%s", nt.Obj().Pkg().Path(), nt.Obj().Name(), cc.Method.Name())
	}
	if name == "error" {
		return "error.Error"
	}
	return fmt.Sprintf("(%s).%s", name, cc.Method.Name())
}

func resultValue(vals []Value, n int) Value {
	switch n {
	case 0:
		return nil
	case 1:
		return vals[0]
	}
	return TupleV(vals)
}

// callFunc calls a statically known function.
func (x *exec) callFunc(s *State, fn *ssa.Function, args []Value, bind []Value, pos token.Pos) Value {
	x.beforeCallAsserts(s, FuncKey(fn), pos)
	r := x.callFunc1(s, fn, args, bind, pos)
	x.afterCall(s, fn, args, r)
	return r
}

// beforeCallAsserts: "assertcall <callee suffix> :: <expr>" clauses of the
// function under verification are obligations at every call of that callee,
// evaluated in the caller's own scope (locals visible).
func (x *exec) beforeCallAsserts(s *State, key string, pos token.Pos) {
	t := x.topExec()
	if t != x || t.contract == nil || x.e.dry > 0 {
		return
	}
	for _, cl := range t.contract.Of("assertcall") {
		parts := strings.SplitN(cl.Text, "::", 2)
		if len(parts) != 2 {
			continue
		}
		pat := strings.TrimSpace(parts[0])
		atSite := false
		if strings.HasPrefix(pat, "@") {
			// "@name": the expression is evaluated in the scope of the call site
			// (locals of an enclosing loop body are visible)
			atSite = true
			pat = strings.TrimSpace(pat[1:])
		}
		if strings.HasPrefix(pat, "!") {
			// "!name": every callee EXCEPT those whose key ends in name
			if strings.HasSuffix(key, strings.TrimSpace(pat[1:])) {
				continue
			}
		} else if !strings.HasSuffix(key, pat) {
			continue
		}
		sub := &Clause{Kind: "assertcall", Text: strings.TrimSpace(parts[1]), Label: cl.Label, File: cl.File, Line: cl.Line}
		var g *Term
		if atSite && pos.IsValid() {
			inLoop := false
			for _, l := range loopStmts(x.fn) {
				if l.Pos() <= pos && pos <= l.End() {
					inLoop = true
				}
			}
			if !inLoop {
				// a clause about the locals of a loop body does not concern the
				// calls outside every loop
				continue
			}
			if t, ok := x.evalClauseAt(sub, s, pos).(*Term); ok && t.Sort == Bool {
				g = t
			} else {
				x.bindFail(sub, fmt.Errorf("clause is not boolean at the call site"))
				g = x.e.C.True()
			}
		} else {
			g = x.evalClauseBool(sub, s, token.NoPos)
		}
		lbl := cl.Label
		if lbl == "" {
			lbl = "assert"
		}
		x.oblige("assert", lbl+"@call:"+calleeShort(key), pos, s, g, sub.Text)
	}
}

// afterCall applies the "atcall" ghost updates of the contract under verification:
//
//	//@ atcall (*Piece).setState :: oldstate == 0 && state == 2 :: Ghost_own = true
func (x *exec) afterCall(s *State, fn *ssa.Function, args []Value, result Value) {
	e := x.e
	t := x.topExec()
	if t.contract == nil || s.pc.IsFalse() {
		return
	}
	for _, cl := range t.contract.Of("atcall") {
		parts := strings.Split(cl.Text, "::")
		if len(parts) != 3 {
			continue
		}
		if !strings.HasSuffix(FuncKey(fn), "."+strings.TrimSpace(parts[0])) {
			continue
		}
		asg := strings.SplitN(parts[2], "=", 2)
		if len(asg) != 2 {
			continue
		}
		name := strings.TrimSpace(asg[0])
		cell, ok := t.ghostCells[name]
		if !ok {
			continue
		}
		cs, err := e.calleeScope(&Block{}, fn, FuncKey(fn))
		if err != nil {
			continue
		}
		ev := func(text, label string) Value {
			sub := &Clause{Kind: "atcall", Text: strings.TrimSpace(text), File: cl.File, Line: cl.Line, Label: cl.Text + label}
			be := e.bind(sub, nil, nil, cs.pos, cs.sig, cs.pkg, e.P.Fset)
			if be.err != nil {
				t.bindFail(cl, be.err)
				return nil
			}
			env := x.calleeEnv(s, s, cs, args)
			env.info = be.info
			// $r0.. name the results of the call just made
			switch rv := result.(type) {
			case nil:
			case TupleV:
				env.res = []Value(rv)
			default:
				env.res = []Value{rv}
			}
			return env.eval(be.expr)
		}
		cond, ok1 := ev(parts[1], "#cond").(*Term)
		val := ev(asg[1], "#val")
		if !ok1 || val == nil {
			continue
		}
		cur, has := s.cells[cell]
		if !has {
			cur = e.zero(cell.T)
		}
		s.cells[cell] = e.mergeVal(cond, val, cur)
	}
}

func (x *exec) callFunc1(s *State, fn *ssa.Function, args []Value, bind []Value, pos token.Pos) Value {
	e := x.e
	key := FuncKey(fn)
	if fn.Blocks != nil && fn.Parent() == nil && (strings.HasPrefix(fn.Synthetic, "wrapper") || strings.HasPrefix(fn.Synthetic, "bound method") || strings.HasPrefix(fn.Synthetic, "thunk")) {
		// wrappers / bound method thunks: just inline them
		return x.inline(s, fn, args, bind, pos)
	}
	if h, ok := natives[key]; ok {
		return h(x, s, fn, args, pos)
	}
	if blk, k2 := x.lookupContract(key); blk != nil && !blk.Has("inline") {
		return x.applyContract(s, blk, fn, args, pos, k2, fn.Signature)
	}
	if fn.Blocks != nil && x.depth < e.MaxInline && fn.Origin() == nil && e.P.PkgOf(fn) != nil && strings.HasPrefix(e.P.PkgOf(fn).PkgPath, ModPath) {
		if blk := e.P.Contracts[key]; blk != nil || inlinable(fn) {
			if blk != nil && blk.Has("inline") && len(blk.Of("requires")) > 0 {
				// "inline" with preconditions: the call site is checked against them,
				// then the body is entered (no postconditions are assumed)
				x.checkPre(s, blk, fn, args, pos, key, fn.Signature)
			}
			return x.inline(s, fn, args, bind, pos)
		}
	}
	return x.defaultCall(s, key, args, fn.Signature, pos)
}

// lookupContract finds the contract of callee key: a package-local assumed
// contract of the calling package takes precedence over the global one.
func (x *exec) lookupContract(key string) (*Block, string) {
	e := x.e
	if pk := e.P.PkgOf(x.fn); pk != nil {
		k2 := pk.PkgPath + "|" + key
		if blk := e.P.Contracts[k2]; blk != nil {
			return blk, k2
		}
	}
	if t := x.topExec(); t != x {
		if pk := e.P.PkgOf(t.fn); pk != nil {
			k2 := pk.PkgPath + "|" + key
			if blk := e.P.Contracts[k2]; blk != nil {
				return blk, k2
			}
		}
	}
	return e.P.Contracts[key], key
}

// inlinable: small loop-free functions.
func inlinable(fn *ssa.Function) bool {
	n := 0
	for _, b := range fn.Blocks {
		n += len(b.Instrs)
		for _, su := range b.Succs {
			if su.Dominates(b) {
				return false
			}
		}
	}
	return n <= 200
}

func (x *exec) inline(s *State, fn *ssa.Function, args []Value, bind []Value, pos token.Pos) Value {
	e := x.e
	e.Inlines[FuncKey(fn)] = true
	y := &exec{e: e, fn: fn, regs: map[ssa.Value]Value{}, cellOf: map[*ssa.Alloc]*Cell{}, args: args, depth: x.depth + 1,
		parent: x, blockOut: map[int]*State{}, freeVars: bind, contract: e.P.Contracts[FuncKey(fn)]}
	// the callee starts with an empty defer stack
	saved := s.defers
	s.defers = nil
	y.entry = s.clone()
	out, vals := y.run(s)
	e.cur = x
	if out == nil {
		s.pc = e.C.False()
		return e.zeroResults(fn.Signature)
	}
	*s = *out
	s.defers = saved
	return resultValue(vals, fn.Signature.Results().Len())
}

func (e *Engine) zeroResults(sig *types.Signature) Value {
	var vals []Value
	for i := 0; i < sig.Results().Len(); i++ {
		vals = append(vals, e.zero(sig.Results().At(i).Type()))
	}
	return resultValue(vals, len(vals))
}

// run executes the whole function body from state s; returns the merged
// state at return and the merged results.
func (x *exec) run(s *State) (*State, []Value) {
	if len(x.fn.Blocks) == 0 {
		x.e.unsupported("function %s has no body", x.fn)
	}
	x.analyzeLoops()
	x.runRegion(nil, 0, s, regionCB{}, false)
	if len(x.rets) == 0 {
		return nil, nil
	}
	out := x.rets[0].st
	vals := x.rets[0].vals
	for _, r := range x.rets[1:] {
		g := x.e.selector(out.pc, r.st.pc)
		nv := make([]Value, len(vals))
		for i := range vals {
			nv[i] = x.e.mergeVal(g, vals[i], r.vals[i])
		}
		vals = nv
		out = x.e.mergeStates(nil, out, nil, r.st)
	}
	return out, vals
}

// defaultCall: a callee without contract and without body.
func (x *exec) defaultCall(s *State, key string, args []Value, sig *types.Signature, pos token.Pos) Value {
	e := x.e
	e.Unverified[key] = true
	{
		nn := e.C.Fresh("next", Int)
		nn.AddFact(e.C.Le(s.next, nn))
		s.next = nn
	}
	// havoc what the arguments give direct access to
	for i, a := range args {
		var pt types.Type
		if sig != nil {
			k := i
			if sig.Recv() != nil {
				k = i - 1
			}
			if k >= 0 && k < sig.Params().Len() {
				pt = sig.Params().At(k).Type()
			} else if k < 0 {
				pt = sig.Recv().Type()
			}
		}
		x.havocReachableT(s, a, pt)
	}
	// closures handed to a function whose body is not entered may be called by
	// it: the captured variables they WRITE hold arbitrary values afterwards
	x.havocClosureCaptures(s, args)
	before := s.alloc
	na := e.C.Fresh("alloc.ext", Int)
	na.AddFact(e.C.Le(s.alloc, na))
	s.alloc = na
	x.noteAlloc(s, pos, "call:"+calleeShort(key))
	s.alloc = before
	var vals []Value
	for i := 0; i < sig.Results().Len(); i++ {
		vals = append(vals, e.fresh(sig.Results().At(i).Type(), "ext:"+key, s))
	}
	return resultValue(vals, len(vals))
}

func (x *exec) havocReachable(s *State, a Value) { x.havocReachableT(s, a, nil) }

// havocReachableT: t (when known) is the static type of the argument; a slice
// argument gives access to elements of its own element type only.
func (x *exec) havocReachableT(s *State, a Value, t types.Type) {
	e := x.e
	c := e.C
	if sv, ok := a.(SliceV); ok && t != nil {
		if sl, ok := t.Underlying().(*types.Slice); ok {
			var keys []string
			if structOf(sl.Elem()) != nil {
				for _, lp := range e.structLeaves(sl.Elem()) {
					keys = append(keys, lp.key)
				}
			} else {
				for _, l := range e.leavesOf(sl.Elem()) {
					keys = append(keys, elemKey(sl.Elem())+l.comp)
				}
			}
			for _, key := range keys {
				so, ok := e.heapSorts[key]
				if !ok {
					continue
				}
				h := e.heapGet(s, key, so)
				e.noteWrite(s, key, wtarget{kind: wRow, arr: sv.Arr, lo: sv.Off, n: sv.Cap})
				e.heapSet(s, key, c.Store(h, sv.Arr, c.Fresh("ext.row{"+key+"}", so.Elem)))
			}
			return
		}
	}
	switch v := a.(type) {
	case PtrV:
		switch v.Kind {
		case PCell:
			if len(v.Path) == 0 {
				s.cells[v.Cell] = e.fresh(v.Cell.T, "ext."+v.Cell.Name, s)
			} else {
				e.store(s, v, e.fresh(v.T, "ext."+v.Cell.Name, s))
			}
		case PObj:
			if structOf(v.T) != nil {
				x.havocObject(s, v)
			}
		case PBox, PLeaf, PElem, PArr:
			e.store(s, v, e.fresh(v.T, "ext", s))
		}
	case SliceV:
		// contents of the backing array row
		for _, key := range sortedSortKeys(e.heapSorts) {
			so := e.heapSorts[key]
			if strings.HasPrefix(key, "A:") && so.Elem.Kind == KArray {
				h := e.heapGet(s, key, so)
				e.noteWrite(s, key, wtarget{kind: wRow, arr: v.Arr, lo: v.Off, n: v.Cap})
				e.heapSet(s, key, c.Store(h, v.Arr, c.Fresh("ext.row{"+key+"}", so.Elem)))
			}
		}
	case IfaceV:
		// unknown dynamic type: nothing precise to havoc
	case StructV:
		for _, f := range v.F {
			x.havocReachable(s, f)
		}
	}
}

func (x *exec) havocObject(s *State, p PtrV) {
	e := x.e
	st := structOf(p.T)
	for i := 0; i < st.NumFields(); i++ {
		fa := e.fieldAddr(p, i)
		if fa.Kind == PObj {
			x.havocObject(s, fa)
			continue
		}
		if e.leavesOf(fa.T) == nil {
			continue
		}
		e.store(s, fa, e.fresh(fa.T, "ext."+st.Field(i).Name(), s))
	}
}

// callbackCall: call through an unknown function value.
func (x *exec) callbackCall(s *State, fv Value, args []Value, res *types.Tuple, pos token.Pos) Value {
	e := x.e
	if f, ok := fv.(FuncV); ok && f.Opaque != nil {
		x.oblige("nil", "", pos, s, e.C.Ne(f.Opaque, e.C.IntC(0)), "call of nil function")
	}
	// "callback <param> pure": calls through that parameter are assumed to leave
	// the heap this function works on alone (an assumption on the callers'
	// closures, listed in the evidence)
	if t := x.topExec(); t.contract != nil {
		if f, ok := fv.(FuncV); ok && f.Opaque != nil {
			for _, cl := range t.contract.Of("callback") {
				fl := strings.Fields(cl.Text)
				if len(fl) == 2 && fl[1] == "pure" {
					for i, p := range t.fn.Params {
						if p.Name() == fl[0] {
							if pf, ok := t.args[i].(FuncV); ok && pf.Opaque == f.Opaque {
								e.Assumed[shortFuncKey(t.fn)+": calls through parameter "+fl[0]+" do not modify the state this function works on"] = true
								// ghost count of the calls made through this parameter:
								// "ghostvar Ghost_calls_<param> int" in the contract
								if cell, ok := t.ghostCells["Ghost_calls_"+fl[0]]; ok {
									cur, has := s.cells[cell].(*Term)
									if !has {
										cur = e.C.IntC(0)
									}
									s.cells[cell] = e.C.Add(cur, e.C.IntC(1))
								}
								var vals []Value
								for i := 0; i < res.Len(); i++ {
									vals = append(vals, e.fresh(res.At(i).Type(), "cb", s))
								}
								return resultValue(vals, len(vals))
							}
						}
					}
				}
			}
		}
	}
	{
		nn := e.C.Fresh("next", Int)
		nn.AddFact(e.C.Le(s.next, nn))
		s.next = nn
	}
	// an unknown callback may change the whole heap
	e.noteWrite(s, "*", wtarget{kind: wAll})
	for _, key := range sortedSortKeys(e.heapSorts) {
		so := e.heapSorts[key]
		if strings.HasPrefix(key, "ghost:") || e.isFinal(key) {
			continue
		}
		s.heap[key] = e.C.Fresh("cb.H{"+key+"}", so)
	}
	before := s.alloc
	na := e.C.Fresh("alloc.cb", Int)
	na.AddFact(e.C.Le(s.alloc, na))
	s.alloc = na
	x.noteAlloc(s, pos, "callback")
	s.alloc = before
	var vals []Value
	for i := 0; i < res.Len(); i++ {
		vals = append(vals, e.fresh(res.At(i).Type(), "cb", s))
	}
	return resultValue(vals, len(vals))
}

// ---- builtins ----

func (x *exec) builtin(s *State, name string, args []Value, cc *ssa.CallCommon, pos token.Pos) Value {
	e := x.e
	c := e.C
	for _, a := range args {
		if pv, ok := a.(PoisonV); ok {
			if name == "panic" {
				break
			}
			return pv
		}
	}
	switch name {
	case "len":
		switch v := args[0].(type) {
		case SliceV:
			return v.Len
		case *Term:
			if v.Sort == Str {
				return e.strLen(v)
			}
			switch repOf(cc.Args[0].Type()) {
			case RMap:
				h := e.heapGet(s, mapKey(cc.Args[0].Type())+"#len", Array(Int, Int))
				l := c.Select(h, v)
				l.AddFact(c.Le(c.IntC(0), l))
				return c.Ite(c.Eq(v, c.IntC(0)), c.IntC(0), l)
			case RChan:
				l := c.Fresh("chanlen", Int)
				l.AddFact(c.Le(c.IntC(0), l))
				return l
			}
		case ArrayV:
			return c.IntC(cc.Args[0].Type().Underlying().(*types.Array).Len())
		case PtrV:
			if at, ok := v.T.Underlying().(*types.Array); ok {
				return c.IntC(at.Len())
			}
		}
	case "cap":
		switch v := args[0].(type) {
		case SliceV:
			return v.Cap
		case ArrayV:
			return c.IntC(cc.Args[0].Type().Underlying().(*types.Array).Len())
		case *Term:
			l := c.Fresh("chancap", Int)
			l.AddFact(c.Le(c.IntC(0), l))
			return l
		}
	case "append":
		return x.doAppend(s, args, cc, pos)
	case "copy":
		dst, ok := args[0].(SliceV)
		if !ok {
			break
		}
		el := cc.Args[0].Type().Underlying().(*types.Slice).Elem()
		var n *Term
		switch src := args[1].(type) {
		case SliceV:
			n = c.Ite(c.Lt(dst.Len, src.Len), dst.Len, src.Len)
			x.copyElems(s, el, dst.Arr, dst.Off, src.Arr, src.Off, n)
		case *Term: // string source
			n = c.Ite(c.Lt(dst.Len, e.strLen(src)), dst.Len, e.strLen(src))
			x.copyFromString(s, dst.Arr, dst.Off, src, n)
		}
		if n != nil {
			return n
		}
	case "delete":
		x.mapDelete(s, args[0].(*Term), args[1], cc.Args[0].Type())
		return nil
	case "close":
		ch := args[0].(*Term)
		h := e.heapGet(s, "chan#closed", Array(Int, Bool))
		x.oblige("chan", "", pos, s, c.And(c.Ne(ch, c.IntC(0)), c.Not(c.Select(h, ch))), "close of nil or closed channel")
		e.heapSet(s, "chan#closed", c.Store(h, ch, c.True()))
		{
			// "closed by the code under verification itself" (spec: closedhere_(ch)):
			// only close() writes this ghost, no havoc touches it
			hh := e.heapGet(s, "chan#closedhere", Array(Int, Bool))
			e.heapSet(s, "chan#closedhere", c.Store(hh, ch, c.True()))
		}
		return nil
	case "min", "max":
		r := args[0]
		for k, a := range args[1:] {
			var less Value
			if name == "min" {
				less = x.binop(token.LSS, a, r, cc.Args[k+1].Type(), cc.Args[0].Type(), s, pos)
			} else {
				less = x.binop(token.GTR, a, r, cc.Args[k+1].Type(), cc.Args[0].Type(), s, pos)
			}
			lt, ok := less.(*Term)
			if !ok {
				return PoisonV{"min/max"}
			}
			r = e.mergeVal(lt, a, r)
		}
		return r
	case "panic":
		x.doPanic(s, pos, "explicit panic")
		return nil
	case "print", "println":
		return nil
	case "recover":
		return e.zero(types.NewInterfaceType(nil, nil))
	case "ssa:wrapnilchk":
		if p, ok := args[0].(PtrV); ok {
			x.nilCheck(s, p, pos)
		}
		return args[0]
	case "ssa:deferstack":
		return c.IntC(0)
	case "clear":
		// rare; treat as unsupported
	}
	e.unsupported("builtin %s at %s", name, e.P.Pos(pos))
	return nil
}

// copyElems copies n elements (memmove semantics) between backing arrays.
func (x *exec) copyElems(s *State, el types.Type, dArr, dOff, sArr, sOff, n *Term) {
	e := x.e
	c := e.C
	type rowKey struct {
		key  string
		sort *Sort
	}
	var keys []rowKey
	if structOf(el) != nil {
		for _, lp := range e.structLeaves(el) {
			keys = append(keys, rowKey{lp.key, lp.sort})
		}
	} else {
		for _, l := range e.leavesOf(el) {
			keys = append(keys, rowKey{elemKey(el) + l.comp, l.sort})
		}
	}
	if structOf(el) == nil && repOf(el) == RByte {
		x.bytesLockset(s, sArr, false, x.pos)
		x.bytesLockset(s, dArr, true, x.pos)
	}
	for _, l := range keys {
		key := l.key
		h := e.heapGet(s, key, Array(Int, Array(Int, l.sort)))
		e.noteWrite(s, key, wtarget{kind: wRow, arr: dArr, lo: dOff, n: n})
		srcRow := c.Select(h, sArr)
		dstRow := c.Select(h, dArr)
		var newRow *Term
		if n.Op == "int" && n.IVal.IsInt64() && n.IVal.Int64() <= 8 {
			newRow = dstRow
			var vals []*Term
			for k := int64(0); k < n.IVal.Int64(); k++ {
				vals = append(vals, c.Select(srcRow, c.Add(sOff, c.IntC(k))))
			}
			for k, v := range vals {
				newRow = c.Store(newRow, c.Add(dOff, c.IntC(int64(k))), v)
			}
		} else {
			newRow = c.Fresh("copy{"+key+"}", Array(Int, l.sort))
			k := c.BoundVar("k", Int)
			in := c.And(c.Le(dOff, k), c.Lt(k, c.Add(dOff, n)))
			sel := c.Select(newRow, k)
			body := c.Eq(sel, c.Ite(in, c.Select(srcRow, c.Add(sOff, c.Sub(k, dOff))), c.Select(dstRow, k)))
			newRow.AddFact(c.Quant("forall", []*Term{k}, body, [][]*Term{{sel}}))
		}
		e.heapSet(s, key, c.Store(h, dArr, newRow))
	}
}

func (x *exec) copyFromString(s *State, dArr, dOff, str, n *Term) {
	e := x.e
	c := e.C
	key := "A:uint8"
	h := e.heapGet(s, key, Array(Int, Array(Int, BV8)))
	e.noteWrite(s, key, wtarget{kind: wRow, arr: dArr, lo: dOff, n: n})
	dstRow := c.Select(h, dArr)
	newRow := c.Fresh("copystr{A:uint8}", Array(Int, BV8))
	k := c.BoundVar("k", Int)
	in := c.And(c.Le(dOff, k), c.Lt(k, c.Add(dOff, n)))
	sel := c.Select(newRow, k)
	body := c.Eq(sel, c.Ite(in, c.App("s.at", BV8, str, c.Sub(k, dOff)), c.Select(dstRow, k)))
	newRow.AddFact(c.Quant("forall", []*Term{k}, body, [][]*Term{{sel}}))
	e.heapSet(s, key, c.Store(h, dArr, newRow))
}

func (x *exec) doAppend(s *State, args []Value, cc *ssa.CallCommon, pos token.Pos) Value {
	e := x.e
	c := e.C
	base, ok := args[0].(SliceV)
	if !ok {
		return PoisonV{"append to non-slice"}
	}
	el := cc.Args[0].Type().Underlying().(*types.Slice).Elem()
	var n *Term
	var src SliceV
	var srcStr *Term
	switch v := args[1].(type) {
	case SliceV:
		src = v
		n = v.Len
	case *Term:
		srcStr = v
		n = e.strLen(v)
	default:
		return PoisonV{"append of non-slice"}
	}
	newLen := c.Add(base.Len, n)
	fits := c.Le(newLen, base.Cap)
	// in-place branch
	sIn := s.clone()
	sIn.assume(c, fits)
	if srcStr != nil {
		x.copyFromString(sIn, base.Arr, c.Add(base.Off, base.Len), srcStr, n)
	} else {
		x.copyElems(sIn, el, base.Arr, c.Add(base.Off, base.Len), src.Arr, src.Off, n)
	}
	// growing branch: fresh array holding old then new elements
	sGrow := s.clone()
	sGrow.assume(c, c.Not(fits))
	arr := e.newRef(sGrow, "append")
	ncap := c.Fresh("appendcap", Int)
	ncap.AddFact(c.And(c.Le(newLen, ncap), c.Le(ncap, c.Add(c.Mul(c.IntC(2), newLen), c.IntC(64)))))
	if structOf(el) == nil {
		x.copyElems(sGrow, el, arr, c.IntC(0), base.Arr, base.Off, base.Len)
	} else {
		x.copyElems(sGrow, el, arr, c.IntC(0), base.Arr, base.Off, base.Len)
	}
	if srcStr != nil {
		x.copyFromString(sGrow, arr, base.Len, srcStr, n)
	} else {
		x.copyElems(sGrow, el, arr, base.Len, src.Arr, src.Off, n)
	}
	sGrow.alloc = c.Add(sGrow.alloc, c.Mul(ncap, c.IntC(sizeOf(el))))
	// merge heaps by condition "fits" (pc unchanged)
	for _, k := range sortedStateKeys(sIn.heap, sGrow.heap) {
		so := e.heapSorts[k]
		s.heap[k] = c.Ite(fits, e.heapGet(sIn, k, so), e.heapGet(sGrow, k, so))
	}
	s.next = c.Ite(fits, sIn.next, sGrow.next)
	s.alloc = c.Ite(fits, sIn.alloc, sGrow.alloc)
	x.noteAlloc(s, pos, "append")
	// appending nothing to nil gives nil
	res := SliceV{
		Arr: c.Ite(fits, base.Arr, arr),
		Off: c.Ite(fits, base.Off, c.IntC(0)),
		Len: newLen,
		Cap: c.Ite(fits, base.Cap, ncap),
	}
	return res
}

// ---- defers, go, select ----

func (x *exec) doDefer(s *State, d *ssa.Defer) {
	cc := d.Call
	// evaluate now
	var args []Value
	for _, a := range cc.Args {
		args = append(args, x.val(a, s))
	}
	var fv Value
	if !cc.IsInvoke() {
		if _, ok := cc.Value.(*ssa.Builtin); !ok {
			fv = x.val(cc.Value, s)
		}
	} else {
		fv = x.val(cc.Value, s)
	}
	pos := d.Pos()
	call := func(e *exec, st *State) {
		if cc.IsInvoke() {
			e.defaultCall(st, invokeKey(&cc), args, cc.Signature(), pos)
			return
		}
		if b, ok := cc.Value.(*ssa.Builtin); ok {
			e.builtin(st, b.Name(), args, &cc, pos)
			return
		}
		if f, ok := fv.(FuncV); ok && f.Fn != nil {
			e.callFunc(st, f.Fn, args, f.Bind, pos)
			return
		}
		e.callbackCall(st, fv, args, cc.Signature().Results(), pos)
	}
	s.defers = append(s.defers, &deferRec{guard: x.e.C.True(), call: func(e *exec, st *State) { call(e, st) }})
}

func (x *exec) runDefers(s *State) {
	c := x.e.C
	ds := s.defers
	s.defers = nil
	for i := len(ds) - 1; i >= 0; i-- {
		d := ds[i]
		if d.guard.IsTrue() {
			d.call(x, s)
			continue
		}
		// conditional: run on a copy and merge
		s1 := s.clone()
		s1.assume(c, d.guard)
		d.call(x, s1)
		s2 := s.clone()
		s2.assume(c, c.Not(d.guard))
		if s1.pc.IsFalse() {
			*s = *s2
			continue
		}
		m := x.e.mergeStates(nil, s1, nil, s2)
		m.defers = nil
		*s = *m
	}
}

func (x *exec) doGo(s *State, g *ssa.Go) {
	cc := g.Call
	var args []Value
	for _, a := range cc.Args {
		args = append(args, x.val(a, s))
	}
	if cc.IsInvoke() {
		return
	}
	var fn *ssa.Function
	switch callee := cc.Value.(type) {
	case *ssa.Function:
		fn = callee
	case *ssa.MakeClosure:
		fn = callee.Fn.(*ssa.Function)
	}
	// locals captured by reference are written by the goroutine at unknown
	// times: from here on they hold arbitrary values after every call (the
	// synchronisation that orders those writes, e.g. WaitGroup.Wait, is a call)
	if mc, ok := cc.Value.(*ssa.MakeClosure); ok {
		cfn, _ := mc.Fn.(*ssa.Function)
		for bi, b := range mc.Bindings {
			if cfn != nil && bi < len(cfn.FreeVars) && onlyLoaded(cfn, cfn.FreeVars[bi]) {
				continue // the goroutine only reads this variable
			}
			if pv, ok := x.val(b, s).(PtrV); ok && pv.Kind == PCell && pv.Cell != nil {
				dup := false
				for _, c0 := range x.shared {
					if c0 == pv.Cell {
						dup = true
					}
				}
				if !dup {
					x.shared = append(x.shared, pv.Cell)
				}
			}
		}
		x.havocShared(s)
	}
	if fn == nil {
		return
	}
	key := FuncKey(fn)
	if blk, k2 := x.lookupContract(key); blk != nil {
		// only the preconditions are checked at the spawn point
		x.checkPre(s, blk, fn, args, g.Pos(), k2, fn.Signature)
	}
}

// onlyLoaded: every use of the captured variable's address in the closure is a
// plain load (so the closure cannot change it).
func onlyLoaded(fn *ssa.Function, fv *ssa.FreeVar) bool {
	refs := fv.Referrers()
	if refs == nil {
		return false
	}
	for _, r := range *refs {
		u, ok := r.(*ssa.UnOp)
		if !ok || u.Op != token.MUL || u.X != fv {
			return false
		}
	}
	return true
}

// havocClosureCaptures: see defaultCall. Transitive: a closure that only reads
// a captured function variable may call THAT closure, which may write its own
// captures (tor.Range wraps its argument in another closure for sync.Map.Range).
func (x *exec) havocClosureCaptures(s *State, args []Value) {
	seen := map[*Cell]bool{}
	var rec func(v Value, depth int)
	rec = func(v Value, depth int) {
		f, ok := v.(FuncV)
		if !ok || f.Fn == nil || depth > 4 {
			return
		}
		for bi, b := range f.Bind {
			pv, ok := b.(PtrV)
			if !ok || pv.Kind != PCell || pv.Cell == nil || seen[pv.Cell] {
				continue
			}
			cur, has := s.cells[pv.Cell]
			if !has {
				continue
			}
			if bi < len(f.Fn.FreeVars) && onlyLoaded(f.Fn, f.Fn.FreeVars[bi]) {
				// read only: but if it holds a closure, that one may be called
				rec(cur, depth+1)
				continue
			}
			seen[pv.Cell] = true
			rec(cur, depth+1)
			s.cells[pv.Cell] = x.e.fresh(pv.Cell.T, pv.Cell.Name+"~cb", s)
		}
	}
	for _, a := range args {
		rec(a, 0)
	}
}

func (x *exec) havocShared(s *State) {
	for _, cl := range x.shared {
		if _, ok := s.cells[cl]; ok {
			s.cells[cl] = x.e.fresh(cl.T, cl.Name+"~shared", s)
		}
	}
}

func (x *exec) doSelect(s *State, sel *ssa.Select) Value {
	e := x.e
	c := e.C
	n := len(sel.States)
	if dones := x.waitsFor(s); dones != nil && sel.Blocking {
		var alts []*Term
		for _, st := range sel.States {
			if st.Dir == types.RecvOnly {
				if ch, ok := x.val(st.Chan, s).(*Term); ok {
					for _, done := range dones {
						alts = append(alts, c.Eq(ch, done))
					}
				}
			}
		}
		x.oblige("blocking", "select", sel.Pos(), s, c.Or(alts...), "blocking select without a case receiving from the Done channel")
	}
	idx := c.Fresh("select", Int)
	lo := int64(0)
	if !sel.Blocking {
		lo = -1
	}
	idx.AddFact(c.And(c.Le(c.IntC(lo), idx), c.Lt(idx, c.IntC(int64(n)))))
	out := TupleV{idx, c.Fresh("selectok", Bool)}
	{
		// ghost "the channel of the last completed receive" (spec: lastrecv_()):
		// the chosen case decides
		h := e.heapGet(s, "chan#lastrecv", Array(Int, Int))
		last := c.Select(h, c.IntC(0))
		for k, st := range sel.States {
			if st.Dir == types.RecvOnly {
				if ch, ok := x.val(st.Chan, s).(*Term); ok {
					last = c.Ite(c.Eq(idx, c.IntC(int64(k))), ch, last)
				}
			}
		}
		e.heapSet(s, "chan#lastrecv", c.Store(h, c.IntC(0), last))
		hh := e.heapGet(s, "chan#holds", Array(Int, Bool))
		for k, st := range sel.States {
			if ch, ok := x.val(st.Chan, s).(*Term); ok {
				chosen := c.Eq(idx, c.IntC(int64(k)))
				if st.Dir == types.RecvOnly {
					hh = c.Ite(chosen, c.Store(hh, ch, c.False()), hh)
				} else {
					hh = c.Ite(chosen, c.Store(hh, ch, c.True()), hh)
				}
			}
		}
		e.heapSet(s, "chan#holds", hh)
	}
	for _, st := range sel.States {
		if st.Dir == types.RecvOnly {
			ch := st.Chan.Type().Underlying().(*types.Chan)
			out = append(out, e.fresh(ch.Elem(), "selrecv", s))
		}
	}
	return out
}

// ---- maps ----

func mapKey(t types.Type) string {
	return "map:" + typeKey(t.Underlying())
}

func (e *Engine) mapKeySort(kt types.Type) *Sort {
	if so := sortOfScalar(kt); so != nil {
		return so
	}
	switch repOf(kt) {
	case RPtr:
		return Int
	case RArray:
		at := kt.Underlying().(*types.Array)
		if es := sortOfScalar(at.Elem()); es != nil {
			return Array(Int, es)
		}
	}
	return nil
}

func (e *Engine) mapKeyTerm(k Value, kt types.Type) *Term {
	switch v := k.(type) {
	case *Term:
		return v
	case PtrV:
		r, err := e.refOfPtr(v)
		if err == nil {
			return r
		}
	case ArrayV:
		if v.A != nil {
			return v.A
		}
	}
	return nil
}

func (x *exec) makeMap(s *State, t types.Type) Value {
	e := x.e
	c := e.C
	mt := t.Underlying().(*types.Map)
	ks := e.mapKeySort(mt.Key())
	if ks == nil {
		// keys of this type are not modelled: the map is opaque (lookups yield
		// arbitrary values, updates are forgotten)
		return e.newRef(s, "map")
	}
	r := e.newRef(s, "map")
	key := mapKey(t)
	has := e.heapGet(s, key+"#has", Array(Int, Array(ks, Bool)))
	e.heapSet(s, key+"#has", c.Store(has, r, c.ConstArr(Array(ks, Bool), c.False())))
	ln := e.heapGet(s, key+"#len", Array(Int, Int))
	e.heapSet(s, key+"#len", c.Store(ln, r, c.IntC(0)))
	return r
}

func (x *exec) mapLeaves(mt *types.Map) []leaf {
	if structOf(mt.Elem()) != nil {
		return nil
	}
	return x.e.leavesOf(mt.Elem())
}

func (x *exec) lookup(s *State, i *ssa.Lookup) Value {
	e := x.e
	c := e.C
	if repOf(i.X.Type()) == RStr {
		str := x.val(i.X, s).(*Term)
		idx := x.val(i.Index, s).(*Term)
		x.oblige("bounds", "", i.Pos(), s, c.And(c.Le(c.IntC(0), idx), c.Lt(idx, e.strLen(str))), "string index out of range")
		return c.App("s.at", BV8, str, idx)
	}
	mt := i.X.Type().Underlying().(*types.Map)
	m, _ := x.val(i.X, s).(*Term)
	ks := e.mapKeySort(mt.Key())
	kt := e.mapKeyTerm(x.val(i.Index, s), mt.Key())
	ls := x.mapLeaves(mt)
	if m == nil || ks == nil || kt == nil || ls == nil {
		v := e.fresh(mt.Elem(), "mapval", s)
		if i.CommaOk {
			return TupleV{v, c.Fresh("mapok", Bool)}
		}
		return v
	}
	key := mapKey(i.X.Type())
	has := c.And(c.Ne(m, c.IntC(0)), c.Select(c.Select(e.heapGet(s, key+"#has", Array(Int, Array(ks, Bool))), m), kt))
	ts := make([]*Term, len(ls))
	for k, l := range ls {
		h := e.heapGet(s, key+"#val"+l.comp, Array(Int, Array(ks, l.sort)))
		ts[k] = c.Select(c.Select(h, m), kt)
	}
	v := e.mergeVal(has, e.fromLeaves(mt.Elem(), ts, s), e.zero(mt.Elem()))
	if i.CommaOk {
		return TupleV{v, has}
	}
	return v
}

func (x *exec) mapUpdate(s *State, i *ssa.MapUpdate) {
	e := x.e
	c := e.C
	mt := i.Map.Type().Underlying().(*types.Map)
	m, _ := x.val(i.Map, s).(*Term)
	ks := e.mapKeySort(mt.Key())
	kt := e.mapKeyTerm(x.val(i.Key, s), mt.Key())
	ls := x.mapLeaves(mt)
	if m == nil {
		e.unsupported("map update on %s", i.Map.Type())
	}
	x.oblige("nil", "", i.Pos(), s, c.Ne(m, c.IntC(0)), "assignment to entry in nil map")
	if ks == nil || kt == nil || ls == nil {
		e.noteWrite(s, mapKey(i.Map.Type()), wtarget{kind: wRef, ref: m})
		return // opaque map
	}
	key := mapKey(i.Map.Type())
	hasH := e.heapGet(s, key+"#has", Array(Int, Array(ks, Bool)))
	had := c.Select(c.Select(hasH, m), kt)
	e.noteWrite(s, key, wtarget{kind: wRef, ref: m})
	e.heapSet(s, key+"#has", c.Store(hasH, m, c.Store(c.Select(hasH, m), kt, c.True())))
	ts, err := e.toLeaves(mt.Elem(), x.val(i.Value, s))
	if err != nil {
		e.unsupported("map update: %v", err)
	}
	for k, l := range ls {
		h := e.heapGet(s, key+"#val"+l.comp, Array(Int, Array(ks, l.sort)))
		e.heapSet(s, key+"#val"+l.comp, c.Store(h, m, c.Store(c.Select(h, m), kt, ts[k])))
	}
	lh := e.heapGet(s, key+"#len", Array(Int, Int))
	e.heapSet(s, key+"#len", c.Store(lh, m, c.Add(c.Select(lh, m), c.Ite(had, c.IntC(0), c.IntC(1)))))
}

func (x *exec) mapDelete(s *State, m *Term, k Value, t types.Type) {
	e := x.e
	c := e.C
	mt := t.Underlying().(*types.Map)
	ks := e.mapKeySort(mt.Key())
	kt := e.mapKeyTerm(k, mt.Key())
	if ks == nil || kt == nil {
		e.noteWrite(s, mapKey(t), wtarget{kind: wRef, ref: m})
		return // opaque map
	}
	key := mapKey(t)
	hasH := e.heapGet(s, key+"#has", Array(Int, Array(ks, Bool)))
	had := c.And(c.Ne(m, c.IntC(0)), c.Select(c.Select(hasH, m), kt))
	e.noteWrite(s, key, wtarget{kind: wRef, ref: m})
	e.heapSet(s, key+"#has", c.Store(hasH, m, c.Store(c.Select(hasH, m), kt, c.False())))
	lh := e.heapGet(s, key+"#len", Array(Int, Int))
	e.heapSet(s, key+"#len", c.Store(lh, m, c.Sub(c.Select(lh, m), c.Ite(had, c.IntC(1), c.IntC(0)))))
}

func (x *exec) next(s *State, i *ssa.Next) Value {
	e := x.e
	c := e.C
	ok := c.Fresh("iter.ok", Bool)
	if i.IsString {
		k := c.Fresh("iter.k", Int)
		str, _ := x.val(i.Iter, s).(*Term)
		if str != nil {
			k.AddFact(c.And(c.Le(c.IntC(0), k), c.Implies(ok, c.Lt(k, e.strLen(str)))))
		}
		r := c.Fresh("iter.rune", Int)
		r.AddFact(c.And(c.Le(c.IntC(0), r), c.Le(r, c.IntC(0x10FFFF))))
		return TupleV{ok, k, r}
	}
	rng := i.Iter.(*ssa.Range)
	mt := rng.X.Type().Underlying().(*types.Map)
	m, _ := x.val(rng.X, s).(*Term)
	kv := e.fresh(mt.Key(), "iter.k", s)
	ks := e.mapKeySort(mt.Key())
	kt := e.mapKeyTerm(kv, mt.Key())
	ls := x.mapLeaves(mt)
	if m == nil || ks == nil || kt == nil || ls == nil {
		return TupleV{ok, kv, e.fresh(mt.Elem(), "iter.v", s)}
	}
	key := mapKey(rng.X.Type())
	has := c.Select(c.Select(e.heapGet(s, key+"#has", Array(Int, Array(ks, Bool))), m), kt)
	s.assume(c, c.Implies(ok, c.And(c.Ne(m, c.IntC(0)), has)))
	ts := make([]*Term, len(ls))
	for k, l := range ls {
		h := e.heapGet(s, key+"#val"+l.comp, Array(Int, Array(ks, l.sort)))
		ts[k] = c.Select(c.Select(h, m), kt)
	}
	return TupleV{ok, kv, e.fromLeaves(mt.Elem(), ts, s)}
}
