package eng

import (
	"fmt"
	"os"
	"sort"
	"strings"

	. "govc/term"
)

// prepareGoal makes quantified obligations robust for the solvers:
//   - universally quantified conjuncts of the goal are skolemised explicitly;
//   - every universally quantified hypothesis (in positive position) is
//     conjoined with its instances at the skolem constants and their
//     neighbours (k, k+1, k-1). Since (forall k. P) implies P(t), this is an
//     equivalent rewriting of the hypothesis: nothing is assumed.
//
// It returns the list of formulas whose conjunction must be unsatisfiable.
func (e *Engine) prepareGoal(hyp, goal *Term) []*Term {
	return e.prepareGoalMode(hyp, goal, false)
}

// prepareGoalMode with dropQ replaces each positive universally quantified
// hypothesis by its instances only (a weakening of the hypotheses: "unsat"
// is still a proof, "sat" only yields a candidate counterexample).
func (e *Engine) prepareGoalMode(hyp, goal *Term, dropQ bool) []*Term {
	return e.prepareGoalMode2(hyp, goal, dropQ, false)
}

// strict: nested quantifiers are instantiated only with skolem constants of a
// variable of the same name (much smaller queries; tried first).
func (e *Engine) prepareGoalMode2(hyp, goal *Term, dropQ bool, strict bool) []*Term {
	c := e.C
	var sks []*Term
	var skolemize func(g *Term) *Term
	skolemize = func(g *Term) *Term {
		switch g.Op {
		case "forall":
			m := map[*Term]*Term{}
			for _, b := range g.Bound {
				k := c.Fresh("sk."+b.Name, b.Sort)
				m[b] = k
				if b.Sort == Int {
					sks = append(sks, k)
				}
			}
			return skolemize(c.Subst(g.Args[0], m))
		case "and":
			out := make([]*Term, len(g.Args))
			for i, a := range g.Args {
				out[i] = skolemize(a)
			}
			return c.And(out...)
		case "=>":
			return c.Implies(g.Args[0], skolemize(g.Args[1]))
		case "or":
			// (A or forall k. B): skolemise the quantified disjuncts
			out := make([]*Term, len(g.Args))
			for i, a := range g.Args {
				if a.Op == "forall" {
					out[i] = skolemize(a)
				} else {
					out[i] = a
				}
			}
			return c.Or(out...)
		}
		return g
	}
	g2 := skolemize(goal)
	if len(sks) > 4 && !dropQ {
		return []*Term{c.And(hyp, c.Not(g2))}
	}
	if len(sks) > 4 {
		sks = sks[:4]
	}
	var insts []*Term
	for _, k := range sks {
		insts = append(insts, k, c.Add(k, c.IntC(1)), c.Sub(k, c.IntC(1)))
	}
	// index-like ground terms of the goal: what the goal reads arrays at, and
	// the integer arguments of the specification functions it mentions
	{
		seen := map[*Term]bool{}
		for _, t := range insts {
			seen[t] = true
		}
		var cands, cands2, candsA, candsS []*Term
		addSpecArg := func(t *Term) {
			if t == nil || t.Sort != Int || t.IsConst() || seen[t] || t.HasBound() {
				return
			}
			seen[t] = true
			candsS = append(candsS, t)
		}
		addArg := func(t *Term) {
			if t == nil || t.Sort != Int || t.IsConst() || seen[t] || t.HasBound() {
				return
			}
			seen[t] = true
			candsA = append(candsA, t)
		}
		addTo := func(t *Term, primary bool) {
			if t == nil || t.Sort != Int || t.IsConst() || seen[t] || t.HasBound() {
				return
			}
			seen[t] = true
			if primary {
				cands = append(cands, t)
			} else {
				cands2 = append(cands2, t)
			}
		}
		add := func(t *Term) { addTo(t, false) }
		vis := map[*Term]bool{}
		var walk func(t *Term)
		walk = func(t *Term) {
			if vis[t] || t.Op == "forall" || t.Op == "exists" {
				return
			}
			vis[t] = true
			switch t.Op {
			case "select":
				idx := t.Args[1]
				addTo(idx, true) // what the goal reads arrays at: most relevant
				if idx.Op == "+" || idx.Op == "-" {
					for _, a := range idx.Args {
						addArg(a)
						// a wrapped successor ite(.., i+1-2^64, ite(.., .., i+1)): also i,
						// so that a hypothesis about element k+1 can be used at k = i
						if a.Op == "ite" || a.Op == "+" || a.Op == "-" || a.Op == "div" {
							indexLeaves(a, addArg, add, 0)
						}
					}
				}
			case "app":
				for _, a := range t.Args {
					if strings.HasPrefix(t.Name, "spec:") {
						// arguments of an uninterpreted specification function in the goal:
						// what a hypothesis about that function is to be instantiated at
						addSpecArg(a)
					} else {
						add(a)
					}
				}
			}
			for _, a := range t.Args {
				walk(a)
			}
		}
		walk(g2)
		var candsK []*Term // constants asked for by the contract (instconsts)
		for _, h := range e.instHints {
			if h.IsConst() && h.Sort == Int && !seen[h] {
				seen[h] = true
				candsK = append(candsK, h)
				continue
			}
			add(h)
		}
		sort.SliceStable(cands, func(i, j int) bool { return Size(cands[i]) < Size(cands[j]) })
		sort.SliceStable(cands2, func(i, j int) bool { return Size(cands2[i]) < Size(cands2[j]) })
		if len(cands) > 8 {
			cands = cands[:8]
		}
		if len(cands2) > 5 {
			cands2 = cands2[:5]
		}
		sort.SliceStable(candsA, func(i, j int) bool { return Size(candsA[i]) < Size(candsA[j]) })
		if len(candsA) > 6 {
			candsA = candsA[:6]
		}
		// largest first: the interesting arguments are element reads, the small
		// ones are slice headers
		sort.SliceStable(candsS, func(i, j int) bool { return Size(candsS[i]) > Size(candsS[j]) })
		if len(candsS) > 6 {
			candsS = candsS[:6]
		}
		insts = append(insts, cands...)
		insts = append(insts, c.IntC(0)) // first element (queue heads, slot 0)
		insts = append(insts, candsS...)
		insts = append(insts, candsA...)
		insts = append(insts, cands2...)
		insts = append(insts, candsK...)
	}
	base := len(sks) * 3
	if os.Getenv("GOVC_DEBUGINST") != "" {
		fmt.Printf("-- insts for goal with %d skolems:\n", len(sks))
		for _, t := range insts {
			s := t.String()
			if len(s) > 200 {
				s = s[:200]
			}
			fmt.Printf("   %s\n", s)
		}
	}
	budget := 3000 // instances in total
	// reduced set for two-variable quantifiers: skolems, hints, a few candidates
	var insts2 []*Term
	{
		seen := map[*Term]bool{}
		add2 := func(t *Term) {
			if !seen[t] && len(insts2) < 8 {
				seen[t] = true
				insts2 = append(insts2, t)
			}
		}
		for _, k := range sks {
			add2(k)
		}
		for _, h := range e.instHints {
			if h.Sort == Int && !h.IsConst() {
				add2(h)
			}
		}
		if len(sks) == 0 {
			for _, t := range insts[base:] {
				add2(t)
			}
		}
	}
	type key struct {
		t   *Term
		pos bool
	}
	memo := map[key]*Term{}
	depth := 0
	goalKeys := heapKeysOf(g2)
	skset := map[*Term]bool{}
	for _, k := range sks {
		skset[k] = true
	}
	goalIdxKeys := indexedKeys(g2, skset)
	var inst func(t *Term, pos bool) *Term
	inst = func(t *Term, pos bool) *Term {
		if t.Sort != Bool || len(t.Args) == 0 {
			return t
		}
		k := key{t, pos}
		if r, ok := memo[k]; ok {
			return r
		}
		var r *Term = t
		switch t.Op {
		case "and":
			out := make([]*Term, len(t.Args))
			for i, a := range t.Args {
				out[i] = inst(a, pos)
			}
			r = c.And(out...)
		case "or":
			out := make([]*Term, len(t.Args))
			for i, a := range t.Args {
				out[i] = inst(a, pos)
			}
			r = c.Or(out...)
		case "not":
			r = c.Not(inst(t.Args[0], !pos))
		case "=>":
			r = c.Implies(inst(t.Args[0], !pos), inst(t.Args[1], pos))
		case "ite":
			r = c.Ite(t.Args[0], inst(t.Args[1], pos), inst(t.Args[2], pos))
		case "=":
			// b == (forall ...): split into the two implications so that the
			// quantified side is reached in a definite polarity
			if t.Args[0].Sort == Bool && (t.Args[0].Op == "forall" || t.Args[1].Op == "forall") {
				a, b := t.Args[0], t.Args[1]
				r = c.And(inst(c.Implies(a, b), pos), inst(c.Implies(b, a), pos))
			}
		case "forall":
			if pos && depth == 0 && len(goalIdxKeys) > 0 && len(t.Bound) > 0 && os.Getenv("GOVC_IDXREL") != "" {
				// which heaps does the bound variable index into? if none of them is
				// indexed by a skolem constant of the goal, instances cannot matter
				bset := map[*Term]bool{}
				for _, b := range t.Bound {
					bset[b] = true
				}
				hk := indexedKeys(t.Args[0], bset)
				if len(hk) > 0 {
					rel := false
					for k := range hk {
						if goalIdxKeys[k] {
							rel = true
						}
					}
					if !rel {
						if dropQ {
							r = c.True()
						}
						break
					}
				}
			}
			if pos && depth == 0 && len(goalKeys) > 0 {
				bk := heapKeysOf(t)
				if len(bk) > 0 {
					rel := false
					for k := range bk {
						if goalKeys[k] {
							rel = true
						}
					}
					if !rel {
						// talks about other parts of the heap than the goal does
						if dropQ {
							r = c.True()
						}
						break
					}
				}
			}
			if pos && len(t.Bound) == 1 && t.Bound[0].Sort == Int {
				parts := []*Term{t}
				if dropQ {
					parts = nil
				}
				use := insts
				if depth > 0 && strict {
					// nested quantifier: only skolem constants that stand for a variable
					// of the same name (e.g. the byte index k of a digest)
					use = nil
					bn := varBase(t.Bound[0].Name)
					for i, k := range sks {
						if varBase(strings.TrimPrefix(k.Name, "sk.")) == bn {
							use = append(use, insts[3*i:3*i+3]...)
						}
					}
				}
				for _, it := range use {
					if budget <= 0 {
						break
					}
					budget--
					in := c.Subst(t.Args[0], map[*Term]*Term{t.Bound[0]: it})
					if depth < 1 {
						depth++
						in = inst(in, true)
						depth--
					}
					parts = append(parts, in)
				}
				r = c.And(parts...)
			} else if pos && len(t.Bound) == 2 && t.Bound[0].Sort == Int && t.Bound[1].Sort == Int && depth == 0 {
				parts := []*Term{t}
				if dropQ {
					parts = nil
				}
				isSk := map[*Term]bool{}
				for _, k := range sks {
					isSk[k] = true
				}
				for _, a := range insts2 {
					for _, b := range insts2 {
						if budget <= 0 {
							break
						}
						if len(sks) > 0 && !isSk[a] && !isSk[b] {
							continue // at least one skolem constant per instance
						}
						budget--
						parts = append(parts, c.Subst(t.Args[0], map[*Term]*Term{t.Bound[0]: a, t.Bound[1]: b}))
					}
				}
				r = c.And(parts...)
			} else if pos && dropQ {
				r = c.True()
			}
		case "exists":
			if !pos && dropQ {
				r = c.False()
			}
		}
		memo[k] = r
		return r
	}
	h2 := inst(hyp, true)
	for round := 0; round < 2 && !strict; round++ {
		// second round: the instances just produced read arrays at shifted
		// positions (k+8, k+28: a buffer sliced and copied several times); the
		// hypotheses about those buffers are instantiated at "skolem + constant"
		// for every such position (at most 8 new terms)
		have := map[*Term]bool{}
		for _, t := range insts {
			have[t] = true
		}
		var extra []*Term
		vis := map[*Term]bool{}
		var walk func(t *Term)
		walk = func(t *Term) {
			if vis[t] || len(extra) >= 20 || t.Op == "forall" || t.Op == "exists" {
				return
			}
			vis[t] = true
			if t.Op == "select" && len(t.Args) == 2 {
				if k := skPlusConst(c, t.Args[1], skset); k != nil && !have[k] {
					have[k] = true
					extra = append(extra, k)
				}
			}
			if t.Op == "app" && strings.HasPrefix(t.Name, "spec:") {
				for _, a := range t.Args {
					if k := skPlusConst(c, a, skset); k != nil && !have[k] && len(extra) < 20 {
						have[k] = true
						extra = append(extra, k)
					}
				}
			}
			for _, a := range t.Args {
				walk(a)
			}
		}
		walk(g2)
		walk(h2)
		if len(extra) == 0 {
			break
		}
		{
			insts = append(insts, extra...)
			for k := range memo {
				delete(memo, k)
			}
			budget = 3000
			h2 = inst(hyp, true)
		}
	}
	return []*Term{c.And(h2, c.Not(g2))}
}

// skPlusConst: for an index that is a sum containing exactly one skolem
// constant, that skolem plus the integer constants of the sum (nil if the sum
// has no constant part or no skolem).
func skPlusConst(c *Ctx, idx *Term, sk map[*Term]bool) *Term {
	var the *Term
	var k int64
	n := 0
	ok := true
	var fl func(t *Term, depth int)
	fl = func(t *Term, depth int) {
		if depth > 4 {
			return
		}
		switch {
		case t.Op == "+":
			for _, a := range t.Args {
				fl(a, depth+1)
			}
		case sk[t]:
			the = t
			n++
		case t.Op == "int" && t.IVal.IsInt64():
			k += t.IVal.Int64()
		}
	}
	fl(idx, 0)
	if !ok || n > 1 || k == 0 || k > 4096 || k < -4096 {
		return nil
	}
	if n == 0 {
		// a fixed position (byte 27 of a header): the constant itself
		if k < 0 {
			return nil
		}
		return c.IntC(k)
	}
	return c.Add(the, c.IntC(k))
}

// varBase strips the uniquifying suffixes from a bound-variable name ("k?14!2" -> "k").
// indexLeaves adds the integer symbols an index expression is built from.
func indexLeaves(t *Term, addArg, add func(*Term), depth int) {
	if depth > 6 || t.Sort != Int {
		return
	}
	if len(t.Args) == 0 {
		add(t)
		return
	}
	switch t.Op {
	case "ite":
		if depth > 0 {
			addArg(t)
		}
		indexLeaves(t.Args[1], addArg, add, depth+1)
		indexLeaves(t.Args[2], addArg, add, depth+1)
	case "+", "-":
		for _, a := range t.Args {
			indexLeaves(a, addArg, add, depth+1)
		}
	case "div":
		// byte index of a bit number (i>>3): the bit number itself is what a
		// hypothesis about bits is to be instantiated at
		if len(t.Args) == 2 && t.Args[1].IsConst() {
			addArg(t.Args[0])
		}
	}
}

func varBase(n string) string {
	for i := 0; i < len(n); i++ {
		if n[i] == '?' || n[i] == '!' {
			return n[:i]
		}
	}
	return n
}

// heapKeysOf collects the heap keys a formula talks about, read off the names
// of the heap constants it mentions ("H0:<key>" and "...{<key>}...").
func heapKeysOf(t *Term) map[string]bool {
	out := map[string]bool{}
	seen := map[*Term]bool{}
	var walk func(u *Term)
	walk = func(u *Term) {
		if seen[u] {
			return
		}
		seen[u] = true
		if u.Op == "const" && u.Sort.Kind == KArray {
			n := u.Name
			if len(n) > 3 && n[:3] == "H0:" {
				out[baseKey(n[3:])] = true
			} else if i := indexByte(n, '{'); i >= 0 {
				if j := indexByte(n[i:], '}'); j > 0 {
					out[baseKey(n[i+1:i+j])] = true
				}
			}
		}
		for _, a := range u.Args {
			walk(a)
		}
	}
	walk(t)
	return out
}

func baseKey(k string) string { return k }

func indexByte(s string, b byte) int {
	for i := 0; i < len(s); i++ {
		if s[i] == b {
			return i
		}
	}
	return -1
}

// indexedKeys: the heap keys of the arrays that are read at an index mentioning
// one of vars.
func indexedKeys(t *Term, vars map[*Term]bool) map[string]bool {
	out := map[string]bool{}
	if len(vars) == 0 {
		return out
	}
	ment := map[*Term]bool{}
	var mentions func(u *Term) bool
	mentions = func(u *Term) bool {
		if v, ok := ment[u]; ok {
			return v
		}
		r := vars[u]
		if !r {
			for _, a := range u.Args {
				if mentions(a) {
					r = true
					break
				}
			}
		}
		ment[u] = r
		return r
	}
	seen := map[*Term]bool{}
	var walk func(u *Term)
	walk = func(u *Term) {
		if seen[u] {
			return
		}
		seen[u] = true
		if u.Op == "select" && mentions(u.Args[1]) {
			for k := range heapKeysOf(u.Args[0]) {
				out[k] = true
			}
		}
		for _, a := range u.Args {
			walk(a)
		}
	}
	walk(t)
	return out
}
