package eng

import (
	"sort"

	. "govc/term"
)

// prepareGoal makes quantified obligations robust for the solvers:
//   - universally quantified conjuncts of the goal are skolemised explicitly;
//   - every universally quantified hypothesis (in positive position) is
//     conjoined with its instances at the skolem constants and their
//     neighbours (k, k+1, k-1). Since (forall k. P) implies P(t), this is an
//     equivalent rewriting of the hypothesis: nothing is assumed.
//
// It returns the list of formulas whose conjunction must be unsatisfiable.
func (e *Engine) prepareGoal(hyp, goal *Term) []*Term {
	return e.prepareGoalMode(hyp, goal, false)
}


// prepareGoalMode with dropQ replaces each positive universally quantified
// hypothesis by its instances only (a weakening of the hypotheses: "unsat"
// is still a proof, "sat" only yields a candidate counterexample).
func (e *Engine) prepareGoalMode(hyp, goal *Term, dropQ bool) []*Term {
	c := e.C
	var sks []*Term
	var skolemize func(g *Term) *Term
	skolemize = func(g *Term) *Term {
		switch g.Op {
		case "forall":
			m := map[*Term]*Term{}
			for _, b := range g.Bound {
				k := c.Fresh("sk."+b.Name, b.Sort)
				m[b] = k
				if b.Sort == Int {
					sks = append(sks, k)
				}
			}
			return skolemize(c.Subst(g.Args[0], m))
		case "and":
			out := make([]*Term, len(g.Args))
			for i, a := range g.Args {
				out[i] = skolemize(a)
			}
			return c.And(out...)
		case "=>":
			return c.Implies(g.Args[0], skolemize(g.Args[1]))
		case "or":
			// (A or forall k. B): skolemise the quantified disjuncts
			out := make([]*Term, len(g.Args))
			for i, a := range g.Args {
				if a.Op == "forall" {
					out[i] = skolemize(a)
				} else {
					out[i] = a
				}
			}
			return c.Or(out...)
		}
		return g
	}
	g2 := skolemize(goal)
	if len(sks) > 4 && !dropQ {
		return []*Term{c.And(hyp, c.Not(g2))}
	}
	if len(sks) > 4 {
		sks = sks[:4]
	}
	var insts []*Term
	for _, k := range sks {
		insts = append(insts, k, c.Add(k, c.IntC(1)), c.Sub(k, c.IntC(1)))
	}
	// index-like ground terms of the goal: what the goal reads arrays at, and
	// the integer arguments of the specification functions it mentions
	{
		seen := map[*Term]bool{}
		for _, t := range insts {
			seen[t] = true
		}
		var cands []*Term
		add := func(t *Term) {
			if t == nil || t.Sort != Int || t.IsConst() || seen[t] || t.HasBound() {
				return
			}
			seen[t] = true
			cands = append(cands, t)
		}
		vis := map[*Term]bool{}
		var walk func(t *Term)
		walk = func(t *Term) {
			if vis[t] || t.Op == "forall" || t.Op == "exists" {
				return
			}
			vis[t] = true
			switch t.Op {
			case "select":
				idx := t.Args[1]
				add(idx)
				if idx.Op == "+" || idx.Op == "-" {
					for _, a := range idx.Args {
						add(a)
					}
				}
			case "app":
				for _, a := range t.Args {
					add(a)
				}
			}
			for _, a := range t.Args {
				walk(a)
			}
		}
		walk(g2)
		for _, h := range e.instHints {
			add(h)
		}
		sort.SliceStable(cands, func(i, j int) bool { return Size(cands[i]) < Size(cands[j]) })
		if len(cands) > 6 {
			cands = cands[:6]
		}
		insts = append(insts, cands...)
	}
	base := len(sks) * 3
	budget := 400 // instances in total
	type key struct {
		t   *Term
		pos bool
	}
	memo := map[key]*Term{}
	depth := 0
	var inst func(t *Term, pos bool) *Term
	inst = func(t *Term, pos bool) *Term {
		if t.Sort != Bool || len(t.Args) == 0 {
			return t
		}
		k := key{t, pos}
		if r, ok := memo[k]; ok {
			return r
		}
		var r *Term = t
		switch t.Op {
		case "and":
			out := make([]*Term, len(t.Args))
			for i, a := range t.Args {
				out[i] = inst(a, pos)
			}
			r = c.And(out...)
		case "or":
			out := make([]*Term, len(t.Args))
			for i, a := range t.Args {
				out[i] = inst(a, pos)
			}
			r = c.Or(out...)
		case "not":
			r = c.Not(inst(t.Args[0], !pos))
		case "=>":
			r = c.Implies(inst(t.Args[0], !pos), inst(t.Args[1], pos))
		case "ite":
			r = c.Ite(t.Args[0], inst(t.Args[1], pos), inst(t.Args[2], pos))
		case "forall":
			if pos && len(t.Bound) == 1 && t.Bound[0].Sort == Int {
				parts := []*Term{t}
				if dropQ {
					parts = nil
				}
				use := insts
				if depth > 0 && base < len(insts) {
					// nested quantifiers: skolem-derived terms first, then the rest while the budget lasts
					use = insts
				}
				for _, it := range use {
					if budget <= 0 {
						break
					}
					budget--
					in := c.Subst(t.Args[0], map[*Term]*Term{t.Bound[0]: it})
					if depth < 1 {
						depth++
						in = inst(in, true)
						depth--
					}
					parts = append(parts, in)
				}
				r = c.And(parts...)
			} else if pos && len(t.Bound) == 2 && t.Bound[0].Sort == Int && t.Bound[1].Sort == Int && depth == 0 {
				parts := []*Term{t}
				if dropQ {
					parts = nil
				}
				for _, a := range insts {
					for _, b := range insts {
						if budget <= 0 {
							break
						}
						budget--
						parts = append(parts, c.Subst(t.Args[0], map[*Term]*Term{t.Bound[0]: a, t.Bound[1]: b}))
					}
				}
				r = c.And(parts...)
			} else if pos && dropQ {
				r = c.True()
			}
		case "exists":
			if !pos && dropQ {
				r = c.False()
			}
		}
		memo[k] = r
		return r
	}
	h2 := inst(hyp, true)
	return []*Term{c.And(h2, c.Not(g2))}
}
