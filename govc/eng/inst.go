package eng

import (
	. "govc/term"
)

// prepareGoal makes quantified obligations robust for the solvers:
//   - universally quantified conjuncts of the goal are skolemised explicitly;
//   - every universally quantified hypothesis (in positive position) is
//     conjoined with its instances at the skolem constants and their
//     neighbours (k, k+1, k-1). Since (forall k. P) implies P(t), this is an
//     equivalent rewriting of the hypothesis: nothing is assumed.
//
// It returns the list of formulas whose conjunction must be unsatisfiable.
func (e *Engine) prepareGoal(hyp, goal *Term) []*Term {
	return e.prepareGoalMode(hyp, goal, false)
}

// prepareGoalMode with dropQ replaces each positive universally quantified
// hypothesis by its instances only (a weakening of the hypotheses: "unsat"
// is still a proof, "sat" only yields a candidate counterexample).
func (e *Engine) prepareGoalMode(hyp, goal *Term, dropQ bool) []*Term {
	c := e.C
	var sks []*Term
	var skolemize func(g *Term) *Term
	skolemize = func(g *Term) *Term {
		switch g.Op {
		case "forall":
			m := map[*Term]*Term{}
			for _, b := range g.Bound {
				k := c.Fresh("sk."+b.Name, b.Sort)
				m[b] = k
				if b.Sort == Int {
					sks = append(sks, k)
				}
			}
			return skolemize(c.Subst(g.Args[0], m))
		case "and":
			out := make([]*Term, len(g.Args))
			for i, a := range g.Args {
				out[i] = skolemize(a)
			}
			return c.And(out...)
		case "=>":
			return c.Implies(g.Args[0], skolemize(g.Args[1]))
		case "or":
			// (A or forall k. B): skolemise the quantified disjuncts
			out := make([]*Term, len(g.Args))
			for i, a := range g.Args {
				if a.Op == "forall" {
					out[i] = skolemize(a)
				} else {
					out[i] = a
				}
			}
			return c.Or(out...)
		}
		return g
	}
	g2 := skolemize(goal)
	if (len(sks) == 0 || len(sks) > 4) && !dropQ {
		return []*Term{c.And(hyp, c.Not(g2))}
	}
	if len(sks) > 4 {
		sks = sks[:4]
	}
	var insts []*Term
	for _, k := range sks {
		insts = append(insts, k, c.Add(k, c.IntC(1)), c.Sub(k, c.IntC(1)))
	}
	type key struct {
		t   *Term
		pos bool
	}
	memo := map[key]*Term{}
	var inst func(t *Term, pos bool) *Term
	inst = func(t *Term, pos bool) *Term {
		if t.Sort != Bool || len(t.Args) == 0 {
			return t
		}
		k := key{t, pos}
		if r, ok := memo[k]; ok {
			return r
		}
		var r *Term = t
		switch t.Op {
		case "and":
			out := make([]*Term, len(t.Args))
			for i, a := range t.Args {
				out[i] = inst(a, pos)
			}
			r = c.And(out...)
		case "or":
			out := make([]*Term, len(t.Args))
			for i, a := range t.Args {
				out[i] = inst(a, pos)
			}
			r = c.Or(out...)
		case "not":
			r = c.Not(inst(t.Args[0], !pos))
		case "=>":
			r = c.Implies(inst(t.Args[0], !pos), inst(t.Args[1], pos))
		case "ite":
			r = c.Ite(t.Args[0], inst(t.Args[1], pos), inst(t.Args[2], pos))
		case "forall":
			if pos && len(t.Bound) == 1 && t.Bound[0].Sort == Int {
				parts := []*Term{t}
				if dropQ {
					parts = nil
				}
				for _, it := range insts {
					parts = append(parts, c.Subst(t.Args[0], map[*Term]*Term{t.Bound[0]: it}))
				}
				r = c.And(parts...)
			} else if pos && dropQ {
				r = c.True()
			}
		case "exists":
			if !pos && dropQ {
				r = c.False()
			}
		}
		memo[k] = r
		return r
	}
	h2 := inst(hyp, true)
	return []*Term{c.And(h2, c.Not(g2))}
}
