package eng

import (
	"fmt"
	"os"
	"go/ast"
	"go/parser"
	"go/token"
	"go/types"
	"regexp"
	"strings"

	"golang.org/x/tools/go/ssa"

	. "govc/term"
)

// boundExpr is a contract expression parsed and type-checked in the scope of a function.
type boundExpr struct {
	expr ast.Expr
	info *types.Info
	err  error
	text string
}

type specFn struct {
	blk    *Block
	decl   *ast.FuncDecl
	info   *types.Info
	params []types.Object
	ghost  bool
}

// specEnv is the evaluation environment of a contract expression.
type specEnv struct {
	x      *exec
	cur    *State
	old    *State
	vars   map[types.Object]Value // bound variables, parameters at call sites
	oldv   map[types.Object]Value // entry values of parameters
	res    []Value                // results ($rN / named)
	resObj []types.Object
	inOld  bool
	info   *types.Info
	pos    token.Pos
	locals func(obj types.Object) (PtrV, bool)
	labels map[string]*State
	loop   *loopInfo
}

var reRes = regexp.MustCompile(`\$r([0-9]+)`)

// bind parses and type-checks clause text at position pos of package pkg.
func (e *Engine) bind(cl *Clause, fn *ssa.Function, scopeFn *types.Func, pos token.Pos, sig *types.Signature, pkg *types.Package, fset *token.FileSet) *boundExpr {
	key := cl
	if be, ok := e.specCache[key]; ok {
		return be
	}
	be := &boundExpr{text: cl.Text}
	e.specCache[key] = be
	text := cl.Text
	// $rN -> result_[T](N)
	qual := func(p *types.Package) string {
		if p == pkg {
			return ""
		}
		return p.Name()
	}
	text = reRes.ReplaceAllStringFunc(text, func(m string) string {
		var n int
		fmt.Sscanf(m[2:], "%d", &n)
		if sig == nil || n >= sig.Results().Len() {
			be.err = fmt.Errorf("no result %d", n)
			return "false"
		}
		return fmt.Sprintf("result_[%s](%d)", types.TypeString(sig.Results().At(n).Type(), qual), n)
	})
	if be.err != nil {
		return be
	}
	d, err := Desugar(text)
	if err != nil {
		be.err = err
		return be
	}
	ex, err := parser.ParseExprFrom(token.NewFileSet(), "", d, 0)
	if err != nil {
		be.err = fmt.Errorf("parse %q: %v", d, err)
		return be
	}
	info := &types.Info{Types: map[ast.Expr]types.TypeAndValue{}, Uses: map[*ast.Ident]types.Object{}, Defs: map[*ast.Ident]types.Object{}, Selections: map[*ast.SelectorExpr]*types.Selection{}, Instances: map[*ast.Ident]types.Instance{}}
	if err := types.CheckExpr(fset, pkg, pos, ex, info); err != nil {
		be.err = fmt.Errorf("type-check %q: %v", cl.Text, err)
		return be
	}
	be.expr = ex
	be.info = info
	return be
}

// scopePos returns a position inside fn's body where params/results (and, for
// loops, body locals) are in scope.
func scopePos(fn *ssa.Function, at token.Pos) token.Pos {
	if at.IsValid() {
		return at
	}
	switch n := fn.Syntax().(type) {
	case *ast.FuncDecl:
		if n.Body != nil {
			return n.Body.Rbrace
		}
	case *ast.FuncLit:
		return n.Body.Rbrace
	}
	return token.NoPos
}

func loopStmts(fn *ssa.Function) []ast.Node {
	var out []ast.Node
	var body *ast.BlockStmt
	switch n := fn.Syntax().(type) {
	case *ast.FuncDecl:
		body = n.Body
	case *ast.FuncLit:
		body = n.Body
	}
	if body == nil {
		return nil
	}
	ast.Inspect(body, func(n ast.Node) bool {
		switch n.(type) {
		case *ast.FuncLit:
			return false
		case *ast.ForStmt, *ast.RangeStmt:
			out = append(out, n)
		}
		return true
	})
	return out
}

func loopBodyPos(n ast.Node) token.Pos {
	switch l := n.(type) {
	case *ast.ForStmt:
		return l.Body.Lbrace + 1
	case *ast.RangeStmt:
		return l.Body.Lbrace + 1
	}
	return token.NoPos
}

// evalClause evaluates a clause in the context of the function being executed
// (x.fn), in state s.
func (x *exec) evalClause(cl *Clause, s *State, at token.Pos) Value {
	e := x.e
	pkg := e.P.PkgOf(x.fn)
	pos := scopePos(x.fn, token.NoPos)
	if at.IsValid() {
		// loop clause: scope at the start of the loop body
		for _, l := range loopStmts(x.fn) {
			if l.Pos() == at {
				pos = loopBodyPos(l)
			}
		}
	}
	be := e.bind(cl, x.fn, nil, pos, x.fn.Signature, pkg.Types, e.P.Fset)
	if be.err != nil {
		x.bindFail(cl, be.err)
		return e.C.True()
	}
	env := x.ownEnv(s)
	env.info = be.info
	if at.IsValid() {
		for _, li := range x.loops {
			if li.pos == at {
				env.loop = li
			}
		}
	}
	return env.eval(be.expr)
}

// evalClauseAt evaluates a clause in the scope of source position src (a call
// site inside a loop body: the loop's locals are visible).
func (x *exec) evalClauseAt(cl *Clause, s *State, src token.Pos) Value {
	e := x.e
	pkg := e.P.PkgOf(x.fn)
	be := e.bind(cl, x.fn, nil, src, x.fn.Signature, pkg.Types, e.P.Fset)
	if be.err != nil {
		x.bindFail(cl, be.err)
		return e.C.True()
	}
	env := x.ownEnv(s)
	env.info = be.info
	return env.eval(be.expr)
}

func (x *exec) evalClauseBool(cl *Clause, s *State, at token.Pos) *Term {
	v := x.evalClause(cl, s, at)
	t, ok := v.(*Term)
	if !ok || t.Sort != Bool {
		if pv, isP := v.(PoisonV); isP {
			x.bindFail(cl, fmt.Errorf("clause evaluates to unsupported value: %s", pv.Why))
		} else {
			x.bindFail(cl, fmt.Errorf("clause is not boolean"))
		}
		return x.e.C.True()
	}
	return t
}

func (x *exec) bindFail(cl *Clause, err error) {
	e := x.e
	if e.dry > 0 {
		return
	}
	name := fmt.Sprintf("%s:bind:%s:%d", shortFuncKey(x.topExec().fn), cl.Kind, cl.Line)
	for _, o := range e.Obls {
		if o.Name == name {
			return
		}
	}
	e.Obls = append(e.Obls, &Obligation{Name: name, Kind: "bind", Func: FuncKey(x.topExec().fn), Props: e.curProps, Clause: cl.Text, Err: err.Error(), Hyp: e.C.True(), Goal: e.C.False(), PosStr: fmt.Sprintf("%s:%d", cl.File, cl.Line)})
}

func (x *exec) topExec() *exec {
	t := x
	for t.parent != nil {
		t = t.parent
	}
	return t
}

// ownEnv: environment for clauses of the function under execution.
func (x *exec) ownEnv(s *State) *specEnv {
	env := &specEnv{x: x, cur: s, old: x.entry, vars: map[types.Object]Value{}, oldv: map[types.Object]Value{}}
	for i, p := range x.fn.Params {
		if p.Object() != nil {
			env.oldv[p.Object()] = x.args[i]
		}
	}
	env.locals = func(obj types.Object) (PtrV, bool) {
		for a, c := range x.cellOf {
			if a.Pos() == obj.Pos() && a.Pos().IsValid() {
				return PtrV{Kind: PCell, Cell: c, T: c.T}, true
			}
		}
		// locals that live in the heap (address taken / arrays)
		for v, val := range x.regs {
			if a, ok := v.(*ssa.Alloc); ok && a.Pos() == obj.Pos() && a.Pos().IsValid() {
				if p, ok := val.(PtrV); ok {
					return p, true
				}
			}
		}
		return PtrV{}, false
	}
	for k, v := range x.ghostEnv {
		env.vars[k] = v
	}
	return env
}

// lockSnap returns the snapshot taken at the lock acquisition in effect in
// the current state (nil if none or ambiguous).
func (env *specEnv) lockSnap() *State {
	var found *State
	for k, v := range env.cur.snap {
		if strings.HasPrefix(k, "lock:") && v != nil {
			if held, ok := env.cur.held[k[5:]]; ok && !held.IsFalse() {
				if found != nil {
					return nil
				}
				found = v
			}
		}
	}
	return found
}

func (env *specEnv) evalOld(ex ast.Expr) Value {
	saved := env.inOld
	env.inOld = true
	v := env.eval(ex)
	env.inOld = saved
	return v
}

func (env *specEnv) state() *State {
	if env.inOld && env.old != nil {
		return env.old
	}
	return env.cur
}

func (env *specEnv) typeOf(ex ast.Expr) types.Type {
	if tv, ok := env.info.Types[ex]; ok {
		return tv.Type
	}
	if id, ok := ex.(*ast.Ident); ok {
		if o := env.info.Uses[id]; o != nil {
			return o.Type()
		}
	}
	return nil
}

func (env *specEnv) eval(ex ast.Expr) Value {
	x := env.x
	e := x.e
	c := e.C
	if tv, ok := env.info.Types[ex]; ok && tv.Value != nil && tv.Type != nil {
		if b, isB := tv.Type.Underlying().(*types.Basic); isB && b.Info()&types.IsUntyped == 0 || isB {
			t := tv.Type
			if isB && b.Info()&types.IsUntyped != 0 {
				t = types.Default(tv.Type)
			}
			return e.constVal(tv.Value, t)
		}
	}
	switch n := ex.(type) {
	case *ast.ParenExpr:
		return env.eval(n.X)
	case *ast.Ident:
		return env.evalIdent(n)
	case *ast.BasicLit:
		tv := env.info.Types[n]
		return e.constVal(tv.Value, types.Default(tv.Type))
	case *ast.UnaryExpr:
		if n.Op == token.AND {
			p, err := env.addr(n.X)
			if err != nil {
				return PoisonV{err.Error()}
			}
			return p
		}
		v := env.eval(n.X)
		if pv, ok := v.(PoisonV); ok {
			return pv
		}
		t := env.typeOf(n)
		switch n.Op {
		case token.NOT:
			return c.Not(v.(*Term))
		case token.SUB:
			switch repOf(t) {
			case RInt:
				if bits, signed := typeBits(t); bits == 64 && signed {
					return c.Neg(v.(*Term))
				}
				return e.wrap1(c.Neg(v.(*Term)), t)
			case RByte:
				return c.BVBin("bvsub", c.BVC(0), v.(*Term))
			}
		case token.ADD:
			return v
		case token.XOR:
			switch repOf(t) {
			case RInt:
				if _, signed := typeBits(t); signed {
					return c.Sub(c.IntC(-1), v.(*Term))
				}
				_, hi, _ := intRange(t)
				return c.Sub(c.IntB(hi), v.(*Term))
			case RByte:
				return c.BVNot(v.(*Term))
			}
		}
		return PoisonV{"spec unary " + n.Op.String()}
	case *ast.BinaryExpr:
		if n.Op == token.LAND || n.Op == token.LOR {
			av, bv := env.eval(n.X), env.eval(n.Y)
			a, ok1 := av.(*Term)
			b, ok2 := bv.(*Term)
			if !ok1 || !ok2 {
				return poisonOf("boolean operand", av, bv)
			}
			if n.Op == token.LAND {
				return c.And(a, b)
			}
			return c.Or(a, b)
		}
		a, b := env.eval(n.X), env.eval(n.Y)
		xt, yt := env.typeOf(n.X), env.typeOf(n.Y)
		// untyped constants take the other operand's type
		if isUntyped(xt) && !isUntyped(yt) && n.Op != token.SHL && n.Op != token.SHR {
			a = env.evalAs(n.X, yt)
			xt = yt
		} else if isUntyped(yt) && !isUntyped(xt) && n.Op != token.SHL && n.Op != token.SHR {
			b = env.evalAs(n.Y, xt)
			yt = xt
		} else if isUntyped(xt) && (n.Op == token.SHL || n.Op == token.SHR) {
			rt := env.typeOf(n)
			if rt != nil && !isUntyped(rt) {
				a = env.evalAs(n.X, rt)
				xt = rt
			}
		}
		e.dry++ // division/shift obligations are not raised for specifications
		e.specMath++
		r := x.binop(n.Op, a, b, xt, yt, env.state(), token.NoPos)
		e.specMath--
		e.dry--
		return r
	case *ast.SelectorExpr:
		return env.evalSelector(n)
	case *ast.IndexExpr:
		// generic instantiation result_[T](k) handled in CallExpr
		base := env.eval(n.X)
		iv := env.eval(n.Index)
		idx, _ := iv.(*Term)
		if idx != nil && idx.Sort == BV8 {
			idx = c.BV2Nat(idx)
		}
		bt := env.typeOf(n.X)
		if idx == nil && repOf(bt) != RMap {
			return poisonOf("index", iv)
		}
		switch b := base.(type) {
		case SliceV:
			el := bt.Underlying().(*types.Slice).Elem()
			return e.load(env.state(), x.elemPtr(b.Arr, c.Add(b.Off, idx), el))
		case ArrayV:
			return e.pathGet(b, bt, []Sel{{Index: idx}})
		case *Term:
			if b.Sort == Str {
				return c.App("s.at", BV8, b, idx)
			}
			if repOf(bt) == RMap {
				return env.mapGet(b, env.eval(n.Index), bt, false)
			}
		case PtrV:
			if at, ok := b.T.Underlying().(*types.Array); ok && b.Kind == PArr {
				return e.load(env.state(), x.elemPtr(b.Arr, idx, at.Elem()))
			}
		case PoisonV:
			return b
		}
		return PoisonV{"spec index"}
	case *ast.SliceExpr:
		base := env.eval(n.X)
		var lo, hi *Term
		if n.Low != nil {
			lo, _ = env.eval(n.Low).(*Term)
		} else {
			lo = c.IntC(0)
		}
		if n.High != nil {
			hi, _ = env.eval(n.High).(*Term)
		}
		switch b := base.(type) {
		case SliceV:
			if hi == nil {
				hi = b.Len
			}
			return SliceV{Arr: b.Arr, Off: c.Add(b.Off, lo), Len: c.Sub(hi, lo), Cap: c.Sub(b.Cap, lo)}
		}
		return PoisonV{"spec slice expr"}
	case *ast.StarExpr:
		p, ok := env.eval(n.X).(PtrV)
		if !ok {
			return PoisonV{"spec deref"}
		}
		return e.load(env.state(), p)
	case *ast.CallExpr:
		return env.evalCall(n)
	case *ast.FuncLit:
		return PoisonV{"func literal outside quantifier"}
	case *ast.CompositeLit:
		return PoisonV{"composite literal in spec"}
	case *ast.TypeAssertExpr:
		return PoisonV{"type assertion in spec (use typeis_/as_)"}
	}
	return PoisonV{fmt.Sprintf("spec expression %T", ex)}
}

// autoPatterns proposes E-matching patterns for a specification quantifier:
// every minimal select/application subterm that mentions all bound variables
// becomes an alternative single-term pattern.
func autoPatterns(body *Term, bound []*Term) [][]*Term {
	if os.Getenv("GOVC_PAT") == "" {
		return nil
	}
	need := map[*Term]bool{}
	for _, b := range bound {
		need[b] = true
	}
	var cands []*Term
	seen := map[*Term]bool{}
	var mentions func(t *Term) map[*Term]bool
	memo := map[*Term]map[*Term]bool{}
	mentions = func(t *Term) map[*Term]bool {
		if m, ok := memo[t]; ok {
			return m
		}
		m := map[*Term]bool{}
		if need[t] {
			m[t] = true
		}
		if t.Op != "forall" && t.Op != "exists" {
			for _, a := range t.Args {
				for k := range mentions(a) {
					m[k] = true
				}
			}
		}
		memo[t] = m
		return m
	}
	var walk func(t *Term)
	walk = func(t *Term) {
		if seen[t] || t.Op == "forall" || t.Op == "exists" {
			return
		}
		seen[t] = true
		if len(mentions(t)) == 0 {
			return
		}
		if (t.Op == "select" || t.Op == "app") && len(mentions(t)) == len(need) {
			// prefer the smallest: if some argument already qualifies, descend
			sub := false
			for _, a := range t.Args {
				if len(mentions(a)) == len(need) && hasApp(a) {
					sub = true
				}
			}
			if !sub {
				cands = append(cands, t)
				return
			}
		}
		for _, a := range t.Args {
			walk(a)
		}
	}
	walk(body)
	if len(cands) == 0 || len(cands) > 6 {
		return nil
	}
	var out [][]*Term
	for _, cnd := range cands {
		out = append(out, []*Term{cnd})
	}
	return out
}

func hasApp(t *Term) bool {
	if t.Op == "select" || t.Op == "app" {
		return true
	}
	for _, a := range t.Args {
		if hasApp(a) {
			return true
		}
	}
	return false
}

func poisonOf(what string, vs ...Value) Value {
	for _, v := range vs {
		if p, ok := v.(PoisonV); ok {
			return PoisonV{what + ": " + p.Why}
		}
	}
	return PoisonV{what + fmt.Sprintf(" (%T)", vs[0])}
}

func isUntyped(t types.Type) bool {
	if t == nil {
		return false
	}
	b, ok := t.Underlying().(*types.Basic)
	return ok && b.Info()&types.IsUntyped != 0
}

// evalAs evaluates a constant expression at type t.
func (env *specEnv) evalAs(ex ast.Expr, t types.Type) Value {
	if tv, ok := env.info.Types[ex]; ok && tv.Value != nil {
		if repOf(t) == RIface || repOf(t) == RPtr || repOf(t) == RSlice || repOf(t) == RMap || repOf(t) == RChan || repOf(t) == RFunc {
			return env.x.e.zero(t)
		}
		return env.x.e.constVal(tv.Value, t)
	}
	if id, ok := ex.(*ast.Ident); ok && id.Name == "nil" {
		return env.x.e.zero(t)
	}
	return env.eval(ex)
}

func (env *specEnv) evalIdent(id *ast.Ident) Value {
	x := env.x
	e := x.e
	obj := env.info.Uses[id]
	if obj == nil {
		obj = env.info.Defs[id]
	}
	switch o := obj.(type) {
	case *types.Nil:
		t := env.typeOf(id)
		if t == nil || isUntyped(t) {
			return PtrV{Kind: PObj, Ref: e.C.IntC(0), T: types.NewStruct(nil, nil)}
		}
		return e.zero(t)
	case *types.Const:
		return e.constVal(o.Val(), o.Type())
	case *types.Var:
		if env.inOld {
			if v, ok := env.oldv[o]; ok {
				return v
			}
		}
		if v, ok := env.vars[o]; ok {
			return v
		}
		for i, ro := range env.resObj {
			if ro == o && i < len(env.res) {
				return env.res[i]
			}
		}
		if env.locals != nil {
			if lp, ok := env.locals(o); ok {
				st := env.state()
				if env.inOld {
					// a local has no entry value other than parameters
					if v, ok := env.oldv[o]; ok {
						return v
					}
				}
				if lp.Kind != PCell {
					return e.load(st, lp)
				}
				cell := lp.Cell
				if v, ok := st.cells[cell]; ok {
					return v
				}
				if v, ok := env.oldv[o]; ok {
					return v
				}
				if v, ok := env.cur.cells[cell]; ok {
					return v
				}
				return e.zero(cell.T)
			}
		}
		if v, ok := env.oldv[o]; ok {
			return v
		}
		// package-level variable
		if o.Pkg() != nil && o.Parent() == o.Pkg().Scope() {
			if strings.HasPrefix(o.Name(), "Ghost_") {
				t := x.topExec()
				if cell, ok := t.ghostCells[o.Name()]; ok {
					if v, ok := env.state().cells[cell]; ok {
						return v
					}
				}
				return e.zero(o.Type())
			}
			if sp := e.P.SSA.Package(o.Pkg()); sp != nil {
				if g, ok := sp.Members[o.Name()].(*ssa.Global); ok {
					return e.load(env.state(), e.globalPtr(g))
				}
			}
		}
		return PoisonV{"unbound variable " + o.Name()}
	case *types.Func:
		if sp := e.P.SSA.Package(o.Pkg()); sp != nil {
			if fn := sp.Func(o.Name()); fn != nil {
				return FuncV{Fn: fn}
			}
		}
	}
	return PoisonV{"identifier " + id.Name}
}

func (env *specEnv) evalSelector(n *ast.SelectorExpr) Value {
	x := env.x
	e := x.e
	// qualified identifier pkg.Name
	if id, ok := n.X.(*ast.Ident); ok {
		if _, isPkg := env.info.Uses[id].(*types.PkgName); isPkg {
			return env.evalIdent(n.Sel)
		}
	}
	sel := env.info.Selections[n]
	if sel == nil {
		return PoisonV{"selector " + n.Sel.Name}
	}
	if sel.Kind() != types.FieldVal {
		return PoisonV{"method value in spec"}
	}
	base := env.eval(n.X)
	bt := env.typeOf(n.X)
	for _, fi := range sel.Index() {
		if pv, ok := base.(PoisonV); ok {
			return pv
		}
		if pt, ok := bt.Underlying().(*types.Pointer); ok {
			p, ok := base.(PtrV)
			if !ok {
				return PoisonV{"selector through non-pointer"}
			}
			fa := e.fieldAddr(p, fi)
			base = e.load(env.state(), fa)
			bt = structOf(pt.Elem()).Field(fi).Type()
			continue
		}
		sv, ok := base.(StructV)
		if !ok {
			return PoisonV{"selector on non-struct"}
		}
		base = sv.F[fi]
		bt = structOf(bt).Field(fi).Type()
	}
	return base
}

// addr evaluates an lvalue expression to a pointer.
func (env *specEnv) addr(ex ast.Expr) (PtrV, error) {
	x := env.x
	e := x.e
	c := e.C
	switch n := ex.(type) {
	case *ast.ParenExpr:
		return env.addr(n.X)
	case *ast.Ident:
		obj := env.info.Uses[n]
		if v, ok := obj.(*types.Var); ok {
			if env.locals != nil {
				if lp, ok := env.locals(v); ok {
					return lp, nil
				}
			}
			if v.Pkg() != nil && v.Parent() == v.Pkg().Scope() {
				if sp := e.P.SSA.Package(v.Pkg()); sp != nil {
					if g, ok := sp.Members[v.Name()].(*ssa.Global); ok {
						return e.globalPtr(g), nil
					}
				}
			}
		}
		return PtrV{}, fmt.Errorf("cannot take address of %s", n.Name)
	case *ast.SelectorExpr:
		if id, ok := n.X.(*ast.Ident); ok {
			if _, isPkg := env.info.Uses[id].(*types.PkgName); isPkg {
				return env.addr(n.Sel)
			}
		}
		sel := env.info.Selections[n]
		if sel == nil || sel.Kind() != types.FieldVal {
			return PtrV{}, fmt.Errorf("bad selector %s", n.Sel.Name)
		}
		bt := env.typeOf(n.X)
		var p PtrV
		if _, ok := bt.Underlying().(*types.Pointer); ok {
			pv, ok := env.eval(n.X).(PtrV)
			if !ok {
				return PtrV{}, fmt.Errorf("selector base is not a pointer")
			}
			p = pv
		} else {
			var err error
			p, err = env.addr(n.X)
			if err != nil {
				return PtrV{}, err
			}
		}
		for k, fi := range sel.Index() {
			if k > 0 {
				// through embedded pointer?
				if _, ok := p.T.Underlying().(*types.Pointer); ok {
					pv, ok := e.load(env.state(), p).(PtrV)
					if !ok {
						return PtrV{}, fmt.Errorf("embedded pointer")
					}
					p = pv
				}
			}
			p = e.fieldAddr(p, fi)
		}
		return p, nil
	case *ast.IndexExpr:
		bt := env.typeOf(n.X)
		idx, _ := env.eval(n.Index).(*Term)
		if idx != nil && idx.Sort == BV8 {
			idx = c.BV2Nat(idx)
		}
		if sl, ok := bt.Underlying().(*types.Slice); ok {
			b, ok := env.eval(n.X).(SliceV)
			if !ok || idx == nil {
				return PtrV{}, fmt.Errorf("index base")
			}
			return x.elemPtr(b.Arr, c.Add(b.Off, idx), sl.Elem()), nil
		}
		return PtrV{}, fmt.Errorf("address of index into %s", bt)
	case *ast.CallExpr:
		if id, ok := n.Fun.(*ast.Ident); ok && id.Name == "pointee_" {
			return env.addr(&ast.StarExpr{X: n.Args[0]})
		}
		if p, ok := env.eval(n).(PtrV); ok {
			return p, nil
		}
		return PtrV{}, fmt.Errorf("call is not an lvalue")
	case *ast.StarExpr:
		switch v := env.eval(n.X).(type) {
		case PtrV:
			return v, nil
		case IfaceV:
			// pointee of a pointer boxed in an interface
			if v.Ptr != nil {
				return *v.Ptr, nil
			}
			if v.Tag.Op == "int" {
				if T, ok := e.tagTypes[int(v.Tag.IVal.Int64())]; ok && repOf(T) == RPtr {
					return e.ptrFromRef(v.Box, T), nil
				}
			}
			return PtrV{}, fmt.Errorf("dynamic type of interface is not known here")
		}
		return PtrV{}, fmt.Errorf("deref of non-pointer")
	}
	return PtrV{}, fmt.Errorf("not an lvalue: %T", ex)
}

func (env *specEnv) mapGet(m *Term, k Value, mtT types.Type, wantHas bool) Value {
	x := env.x
	e := x.e
	c := e.C
	mt := mtT.Underlying().(*types.Map)
	ks := e.mapKeySort(mt.Key())
	kt := e.mapKeyTerm(k, mt.Key())
	ls := x.mapLeaves(mt)
	if ks == nil || kt == nil || ls == nil {
		return PoisonV{"map access in spec"}
	}
	key := mapKey(mtT)
	s := env.state()
	has := c.And(c.Ne(m, c.IntC(0)), c.Select(c.Select(e.heapGet(s, key+"#has", Array(Int, Array(ks, Bool))), m), kt))
	if wantHas {
		return has
	}
	ts := make([]*Term, len(ls))
	for k, l := range ls {
		h := e.heapGet(s, key+"#val"+l.comp, Array(Int, Array(ks, l.sort)))
		ts[k] = c.Select(c.Select(h, m), kt)
	}
	return e.mergeVal(has, e.fromLeaves(mt.Elem(), ts, s), e.zero(mt.Elem()))
}

func (env *specEnv) evalCall(n *ast.CallExpr) Value {
	x := env.x
	e := x.e
	c := e.C
	// conversion?
	if tv, ok := env.info.Types[n.Fun]; ok && tv.IsType() {
		v := env.eval(n.Args[0])
		from := env.typeOf(n.Args[0])
		if isUntyped(from) {
			return env.evalAs(n.Args[0], tv.Type)
		}
		if repOf(from) == repOf(tv.Type) && repOf(from) != RInt {
			return v
		}
		return x.convert(v, from, tv.Type, env.state())
	}
	name := ""
	var fobj types.Object
	switch f := n.Fun.(type) {
	case *ast.Ident:
		name = f.Name
		fobj = env.info.Uses[f]
	case *ast.IndexExpr:
		if id, ok := f.X.(*ast.Ident); ok {
			name = id.Name
			fobj = env.info.Uses[id]
		}
	case *ast.SelectorExpr:
		name = f.Sel.Name
		fobj = env.info.Uses[f.Sel]
	}
	switch name {
	case "old_":
		if env.old == nil {
			return env.eval(n.Args[0])
		}
		saved := env.inOld
		env.inOld = true
		v := env.eval(n.Args[0])
		env.inOld = saved
		return v
	case "atlock_":
		// value in the state right after the (single) lock acquisition in effect
		ls := env.lockSnap()
		if ls == nil {
			return env.eval(n.Args[0])
		}
		sub := *env
		sub.cur = ls
		sub.inOld = false
		return sub.eval(n.Args[0])
	case "implies_":
		av, bv := env.eval(n.Args[0]), env.eval(n.Args[1])
		a, ok1 := av.(*Term)
		b, ok2 := bv.(*Term)
		if !ok1 || !ok2 {
			return poisonOf("implies operand", av, bv)
		}
		return c.Implies(a, b)
	case "iff_":
		av, bv := env.eval(n.Args[0]), env.eval(n.Args[1])
		a, ok1 := av.(*Term)
		b, ok2 := bv.(*Term)
		if !ok1 || !ok2 {
			return poisonOf("iff operand", av, bv)
		}
		return c.Eq(a, b)
	case "ite_":
		g, ok := env.eval(n.Args[0]).(*Term)
		if !ok {
			return PoisonV{"ite condition"}
		}
		t := env.typeOf(n)
		return e.mergeVal(g, env.evalAs(n.Args[1], t), env.evalAs(n.Args[2], t))
	case "forall_", "exists_":
		fl, ok := n.Args[0].(*ast.FuncLit)
		if !ok {
			return PoisonV{"quantifier body"}
		}
		var bound []*Term
		var guards []*Term
		for _, f := range fl.Type.Params.List {
			for _, nm := range f.Names {
				obj := env.info.Defs[nm]
				so := sortOfScalar(obj.Type())
				if so == nil {
					return PoisonV{"quantified variable of type " + obj.Type().String()}
				}
				bv := c.BoundVar(nm.Name, so)
				bound = append(bound, bv)
				env.vars[obj] = bv
				if lo, hi, ok := intRange(obj.Type()); ok && so == Int {
					guards = append(guards, c.Le(c.IntB(lo), bv), c.Le(bv, c.IntB(hi)))
				}
			}
		}
		ret := fl.Body.List[0].(*ast.ReturnStmt)
		body, ok := env.eval(ret.Results[0]).(*Term)
		if !ok {
			return PoisonV{"quantifier body is not boolean"}
		}
		if name == "forall_" {
			return c.Quant("forall", bound, c.Implies(c.And(guards...), body), autoPatterns(body, bound))
		}
		return c.Quant("exists", bound, c.And(c.And(guards...), body), nil)
	case "safe_":
		// the string is safe to place in generated HTML: a literal of the
		// program, the result of an escaping function (by contract), or a
		// concatenation of safe strings
		st, ok := env.eval(n.Args[0]).(*Term)
		if !ok {
			return PoisonV{"safe_ argument"}
		}
		return e.safeOf(st, 0)
	case "lastrecv_":
		// lastrecv_(ch): the last receive completed so far was on channel ch
		ch, ok := env.eval(n.Args[0]).(*Term)
		if !ok {
			return PoisonV{"lastrecv_ argument"}
		}
		return c.Eq(c.Select(e.heapGet(env.state(), "chan#lastrecv", Array(Int, Int)), c.IntC(0)), ch)
	case "holds_":
		// holds_(ch): the last channel operation of this function on ch was a
		// completed send (ch used as a semaphore: the token is held)
		ch, ok := env.eval(n.Args[0]).(*Term)
		if !ok {
			return PoisonV{"holds_ argument"}
		}
		return c.Select(e.heapGet(env.state(), "chan#holds", Array(Int, Bool)), ch)
	case "closedhere_":
		// the channel was closed by the function under verification itself (its own
		// close statements, those of its deferred functions and of inlined callees)
		ch, ok := env.eval(n.Args[0]).(*Term)
		if !ok {
			return PoisonV{"closedhere_ argument"}
		}
		so := Array(Int, Bool)
		return c.And(c.Select(e.heapGet(env.state(), "chan#closedhere", so), ch), c.Not(c.Select(heapInit(c, "chan#closedhere", so), ch)))
	case "closed_":
		// the channel has been closed (ghost bit maintained by close())
		ch, ok := env.eval(n.Args[0]).(*Term)
		if !ok {
			return PoisonV{"closed_ argument"}
		}
		return c.Select(e.heapGet(env.state(), "chan#closed", Array(Int, Bool)), ch)
	case "fresh_":
		// allocated after the old state (callee-fresh)
		var r *Term
		switch v := env.eval(n.Args[0]).(type) {
		case SliceV:
			r = v.Arr
		case PtrV:
			rr, err := e.refOfPtr(v)
			if err != nil {
				return PoisonV{err.Error()}
			}
			r = rr
		case *Term:
			r = v
		case IfaceV:
			r = v.Box
		default:
			return PoisonV{"fresh_ argument"}
		}
		base := env.cur.next
		if env.old != nil {
			base = env.old.next
		}
		return c.Le(base, e.rootOf(r))
	case "existing_":
		// allocated no later than the current state (closed heap)
		var r *Term
		switch v := env.eval(n.Args[0]).(type) {
		case SliceV:
			r = v.Arr
		case PtrV:
			rr, err := e.refOfPtr(v)
			if err != nil {
				return PoisonV{err.Error()}
			}
			r = rr
		case *Term:
			r = v
		default:
			return PoisonV{"existing_ argument"}
		}
		return c.Or(c.Eq(r, c.IntC(0)), c.Lt(e.rootOf(r), env.state().next))
	case "samearr_":
		a, ok1 := env.eval(n.Args[0]).(SliceV)
		b, ok2 := env.eval(n.Args[1]).(SliceV)
		if !ok1 || !ok2 {
			return PoisonV{"samearr_ arguments"}
		}
		return c.And(c.Eq(a.Arr, b.Arr), c.Eq(a.Off, b.Off))
	case "samerow_":
		// the whole backing arrays have equal contents (old() selects the state)
		a, ok1 := n.Args[0], true
		av, ok1 := env.eval(a).(SliceV)
		if !ok1 {
			return PoisonV{"samerow_ arguments"}
		}
		el := env.typeOf(n.Args[0]).Underlying().(*types.Slice).Elem()
		ls := e.leavesOf(el)
		if len(ls) != 1 || structOf(el) != nil {
			return PoisonV{"samerow_ on non-scalar elements"}
		}
		key := elemKey(el) + ls[0].comp
		so := Array(Int, Array(Int, ls[0].sort))
		rowNow := c.Select(e.heapGet(env.state(), key, so), av.Arr)
		// second argument: evaluated (usually under old()) for its state
		var rowThen *Term
		if call, ok := n.Args[1].(*ast.CallExpr); ok {
			if id, ok := call.Fun.(*ast.Ident); ok && id.Name == "old_" && env.old != nil {
				bv, ok2 := env.evalOld(call.Args[0]).(SliceV)
				if !ok2 {
					return PoisonV{"samerow_ arguments"}
				}
				rowThen = c.Select(e.heapGet(env.old, key, so), bv.Arr)
			}
			if id, ok := call.Fun.(*ast.Ident); ok && id.Name == "atlock_" {
				if ls := env.lockSnap(); ls != nil {
					sub := *env
					sub.cur = ls
					sub.inOld = false
					bv, ok2 := sub.eval(call.Args[0]).(SliceV)
					if !ok2 {
						return PoisonV{"samerow_ arguments"}
					}
					rowThen = c.Select(e.heapGet(ls, key, so), bv.Arr)
				}
			}
		}
		if rowThen == nil {
			bv, ok2 := env.eval(n.Args[1]).(SliceV)
			if !ok2 {
				return PoisonV{"samerow_ arguments"}
			}
			rowThen = c.Select(e.heapGet(env.state(), key, so), bv.Arr)
		}
		return c.Eq(rowNow, rowThen)
	case "typeis_":
		iv, ok := env.eval(n.Args[0]).(IfaceV)
		if !ok {
			return PoisonV{"typeis_ argument"}
		}
		T := env.info.Instances[n.Fun.(*ast.IndexExpr).X.(*ast.Ident)].TypeArgs.At(0)
		return c.Eq(iv.Tag, e.typeTag(T))
	case "as_":
		iv, ok := env.eval(n.Args[0]).(IfaceV)
		if !ok {
			return PoisonV{"as_ argument"}
		}
		T := env.info.Instances[n.Fun.(*ast.IndexExpr).X.(*ast.Ident)].TypeArgs.At(0)
		return x.unbox(env.state(), iv, T)
	case "ref_":
		switch v := env.eval(n.Args[0]).(type) {
		case PtrV:
			r, err := e.refOfPtr(v)
			if err != nil {
				return PoisonV{err.Error()}
			}
			return r
		case IfaceV:
			return v.Box
		case *Term:
			return v
		case SliceV:
			return v.Arr
		}
		return PoisonV{"ref_ argument"}
	case "alloc_":
		base := c.IntC(0)
		if env.old != nil {
			base = env.old.alloc
		}
		return c.Sub(env.state().alloc, base)
	case "rangeidxn_":
		// $i(n): iterations completed of range loop n, as left at this point
		tv := env.info.Types[n.Args[0]]
		k, _ := constantInt(tv)
		for _, li := range x.loops {
			if li.ordinal == int(k) {
				if cell, _ := x.rangeIndexOf(li, env.state()); cell != nil {
					if v, ok := env.state().cells[cell].(*Term); ok {
						return c.Add(v, c.IntC(1))
					}
				}
			}
		}
		// the loop has not been reached on this path
		return c.IntC(0)
	case "rangeidx_":
		if env.loop != nil {
			if cell, _ := x.rangeIndexOf(env.loop, env.state()); cell != nil {
				if v, ok := env.state().cells[cell].(*Term); ok {
					return c.Add(v, c.IntC(1))
				}
			}
		}
		return PoisonV{"$i outside a range loop"}
	case "result_":
		tv := env.info.Types[n.Args[0]]
		k, _ := constantInt(tv)
		if int(k) < len(env.res) {
			return env.res[k]
		}
		return PoisonV{"result not available here"}
	case "len":
		v := env.eval(n.Args[0])
		switch u := v.(type) {
		case SliceV:
			return u.Len
		case *Term:
			if u.Sort == Str {
				return e.strLen(u)
			}
			if t := env.typeOf(n.Args[0]); repOf(t) == RMap {
				h := e.heapGet(env.state(), mapKey(t)+"#len", Array(Int, Int))
				return c.Ite(c.Eq(u, c.IntC(0)), c.IntC(0), c.Select(h, u))
			}
		case ArrayV:
			return c.IntC(env.typeOf(n.Args[0]).Underlying().(*types.Array).Len())
		case PoisonV:
			return u
		}
		return PoisonV{"len in spec"}
	case "cap":
		if u, ok := env.eval(n.Args[0]).(SliceV); ok {
			return u.Cap
		}
		return PoisonV{"cap in spec"}
	case "min", "max":
		if _, isB := fobj.(*types.Builtin); isB {
			t := env.typeOf(n)
			r := env.evalAs(n.Args[0], t)
			for _, a := range n.Args[1:] {
				av := env.evalAs(a, t)
				op := token.LSS
				if name == "max" {
					op = token.GTR
				}
				lt, ok := x.binop(op, av, r, t, t, env.state(), token.NoPos).(*Term)
				if !ok {
					return PoisonV{"min/max"}
				}
				r = e.mergeVal(lt, av, r)
			}
			return r
		}
	}
	// spec functions and pure program functions
	if fo, ok := fobj.(*types.Func); ok {
		var args []Value
		sig := fo.Type().(*types.Signature)
		for i, a := range n.Args {
			var pt types.Type
			if i < sig.Params().Len() {
				pt = sig.Params().At(i).Type()
			}
			if pt != nil && isUntyped(env.typeOf(a)) {
				args = append(args, env.evalAs(a, pt))
			} else {
				args = append(args, env.eval(a))
			}
		}
		// method call: receiver first
		if sel, ok := n.Fun.(*ast.SelectorExpr); ok {
			if s := env.info.Selections[sel]; s != nil && s.Kind() == types.MethodVal {
				recv := env.eval(sel.X)
				rt := env.typeOf(sel.X)
				// auto address / deref
				want := sig.Recv().Type()
				_, wantPtr := want.Underlying().(*types.Pointer)
				_, havePtr := rt.Underlying().(*types.Pointer)
				if wantPtr && !havePtr {
					p, err := env.addr(sel.X)
					if err != nil {
						return PoisonV{err.Error()}
					}
					recv = p
				} else if !wantPtr && havePtr {
					if p, ok := recv.(PtrV); ok {
						recv = e.load(env.state(), p)
					}
				}
				args = append([]Value{recv}, args...)
			}
		}
		return env.callSpecOrPure(fo, args, n)
	}
	return PoisonV{"call of " + name + " in spec"}
}

func constantInt(tv types.TypeAndValue) (int64, bool) {
	if tv.Value == nil {
		return 0, false
	}
	var k int64
	_, err := fmt.Sscanf(tv.Value.ExactString(), "%d", &k)
	return k, err == nil
}

func (e *Engine) safeOf(t *Term, depth int) *Term {
	c := e.C
	if _, ok := e.strLitVals[t]; ok {
		return c.True()
	}
	if depth < 12 {
		if t.Op == "app" && t.Name == "s.concat" && len(t.Args) == 2 {
			return c.And(e.safeOf(t.Args[0], depth+1), e.safeOf(t.Args[1], depth+1))
		}
		if t.Op == "ite" && len(t.Args) == 3 {
			return c.Ite(t.Args[0], e.safeOf(t.Args[1], depth+1), e.safeOf(t.Args[2], depth+1))
		}
	}
	return c.App("s.safe", Bool, t)
}

// opaqueHere: the package of the function under verification declares the
// spec function opaque.
func (e *Engine) opaqueHere(x *exec, name string) bool {
	// "opaque <specfn> ..." as a clause of the function under verification:
	// opaque in the proof of that function only
	if b := x.topExec().contract; b != nil {
		for _, cl := range b.Of("opaquefn") {
			for _, n := range strings.Fields(cl.Text) {
				if n == name {
					return true
				}
			}
		}
	}
	pk := e.P.PkgOf(x.topExec().fn)
	if pk == nil {
		return false
	}
	for _, b := range e.P.Blocks {
		if b.Kind == "opaque" && b.Pkg == pk.PkgPath {
			for _, n := range strings.Fields(b.Header) {
				if n == name {
					return true
				}
			}
		}
	}
	return false
}

// callSpecOrPure evaluates a call to a spec function (macro-expanded or
// uninterpreted/ghost) or to a program function marked pure (inlined).
func (env *specEnv) callSpecOrPure(fo *types.Func, args []Value, n *ast.CallExpr) Value {
	x := env.x
	e := x.e
	c := e.C
	key := ""
	if fo.Pkg() != nil {
		key = fo.Pkg().Path() + "." + fo.Name()
	}
	if sf := e.lookupSpecFn(fo, key); sf != nil {
		if sf.decl != nil && sf.decl.Body != nil && (len(sf.blk.Of("body")) > 0 || strings.Contains(sf.blk.Header, "{")) && !e.opaqueHere(x, fo.Name()) {
			// macro expansion of "return <expr>"
			sub := &specEnv{x: x, cur: env.cur, old: env.old, inOld: env.inOld, vars: map[types.Object]Value{}, oldv: map[types.Object]Value{}, info: sf.info, labels: env.labels}
			for i, p := range sf.params {
				if i < len(args) {
					sub.vars[p] = args[i]
				}
			}
			ret, ok := sf.decl.Body.List[len(sf.decl.Body.List)-1].(*ast.ReturnStmt)
			if !ok || len(ret.Results) != 1 {
				return PoisonV{"spec function body must be a single return"}
			}
			rt := fo.Type().(*types.Signature).Results().At(0).Type()
			if isUntyped(sub.typeOf(ret.Results[0])) {
				return sub.evalAs(ret.Results[0], rt)
			}
			return sub.eval(ret.Results[0])
		}
		// ghost field: heap-backed; or uninterpreted function of the argument terms
		sig := fo.Type().(*types.Signature)
		rt := sig.Results().At(0).Type()
		var ts []*Term
		for i, a := range args {
			fl, err := e.flattenArg(a, sig.Params().At(i).Type(), env.state())
			if err != nil {
				return PoisonV{"spec argument: " + err.Error()}
			}
			ts = append(ts, fl...)
		}
		if sf.ghost {
			if len(ts) != 1 {
				return PoisonV{"ghost field takes one reference argument"}
			}
			ls := e.leavesOf(rt)
			if len(ls) != 1 {
				return PoisonV{"ghost field of non-scalar type"}
			}
			h := e.heapGet(env.state(), "ghost:"+fo.Name(), Array(Int, ls[0].sort))
			return e.fromLeaves(rt, []*Term{c.Select(h, ts[0])}, env.state())
		}
		ls := e.leavesOf(rt)
		if len(ls) != 1 {
			return PoisonV{"uninterpreted spec function of non-scalar result"}
		}
		r := c.App("spec:"+fo.Name(), ls[0].sort, ts...)
		return e.fromLeaves(rt, []*Term{r}, env.state())
	}
	// program function: inline when it has a body (pure use is the author's responsibility;
	// the callee is executed on a scratch copy of the state, so it cannot change anything)
	var fn *ssa.Function
	if sp := e.P.SSA.Package(fo.Pkg()); sp != nil {
		fn = e.P.SSA.FuncValue(fo)
	}
	if fn != nil && fn.Blocks != nil {
		st := env.state().clone()
		e.dry++
		v := x.inline(st, fn, args, nil, n.Pos())
		e.dry--
		return v
	}
	return PoisonV{"call of " + fo.Name() + " in spec"}
}

// flatten turns a value into the list of terms identifying it (for
// uninterpreted functions). Slices are identified by (row contents, off, len).
func (e *Engine) flatten(v Value, t types.Type, s *State) ([]*Term, error) {
	switch u := v.(type) {
	case *Term:
		return []*Term{u}, nil
	case PtrV:
		r, err := e.refOfPtr(u)
		if err != nil {
			return nil, err
		}
		return []*Term{r}, nil
	case SliceV:
		sl, ok := t.Underlying().(*types.Slice)
		if ok {
			if ls := e.leavesOf(sl.Elem()); len(ls) == 1 && structOf(sl.Elem()) == nil {
				h := e.heapGet(s, elemKey(sl.Elem())+ls[0].comp, Array(Int, Array(Int, ls[0].sort)))
				return []*Term{e.C.Select(h, u.Arr), u.Off, u.Len}, nil
			}
		}
		return []*Term{u.Arr, u.Off, u.Len}, nil
	case IfaceV:
		return []*Term{u.Tag, u.Box}, nil
	case ArrayV:
		if u.A != nil {
			return []*Term{u.A}, nil
		}
	case StructV:
		st := structOf(t)
		var out []*Term
		for i, f := range u.F {
			ts, err := e.flatten(f, st.Field(i).Type(), s)
			if err != nil {
				return nil, err
			}
			out = append(out, ts...)
		}
		return out, nil
	case PoisonV:
		return nil, fmt.Errorf("%s", u.Why)
	}
	return nil, fmt.Errorf("cannot flatten %T", v)
}

// flattenArg flattens an argument of a spec function; a parameter of
// interface type identifies its argument by reference only, so that the same
// object gives the same term whether it is passed as a pointer or boxed.
func (e *Engine) flattenArg(v Value, pt types.Type, s *State) ([]*Term, error) {
	if repOf(pt) == RIface {
		switch u := v.(type) {
		case IfaceV:
			if u.Ptr != nil {
				return nil, fmt.Errorf("pointer to a local passed to a spec function")
			}
			return []*Term{u.Box}, nil
		case PtrV:
			r, err := e.refOfPtr(u)
			if err != nil {
				return nil, err
			}
			return []*Term{r}, nil
		case *Term:
			return []*Term{u}, nil
		}
	}
	return e.flatten(v, pt, s)
}

func (e *Engine) lookupSpecFn(fo *types.Func, key string) *specFn {
	if sf, ok := e.specFnCache[key]; ok {
		return sf
	}
	var sf *specFn
	blk := e.P.Specs[key]
	if blk == nil {
		blk = e.P.Specs[fo.Name()]
	}
	if blk != nil && fo.Pkg() != nil {
		pk := e.P.Pkgs[fo.Pkg().Path()]
		sf = &specFn{blk: blk, ghost: blk.Has("ghost") || len(blk.Of("ghost")) > 0}
		if pk != nil {
			for _, f := range pk.Syntax {
				for _, d := range f.Decls {
					if fd, ok := d.(*ast.FuncDecl); ok && fd.Name.Name == fo.Name() && fd.Recv == nil {
						sf.decl = fd
						sf.info = pk.TypesInfo
						for _, fl := range fd.Type.Params.List {
							for _, nm := range fl.Names {
								sf.params = append(sf.params, pk.TypesInfo.Defs[nm])
							}
						}
					}
				}
			}
		}
	}
	e.specFnCache[key] = sf
	return sf
}

// ---- contracts at call sites ----

type calleeScope struct {
	pkg    *types.Package
	pos    token.Pos
	params []types.Object
	resObj []types.Object
	sig    *types.Signature
}

func (e *Engine) calleeScope(blk *Block, fn *ssa.Function, key string) (*calleeScope, error) {
	if fn != nil && fn.Syntax() != nil && !blk.Extern && e.P.PkgOf(fn) != nil {
		cs := &calleeScope{pkg: e.P.PkgOf(fn).Types, pos: scopePos(fn, token.NoPos), sig: fn.Signature}
		for _, p := range fn.Params {
			cs.params = append(cs.params, p.Object())
		}
		res := fn.Signature.Results()
		for i := 0; i < res.Len(); i++ {
			cs.resObj = append(cs.resObj, res.At(i))
		}
		return cs, nil
	}
	// extern: stub in the synthetic externs package
	stub := e.P.externStub(key)
	if stub == nil {
		return nil, fmt.Errorf("no stub signature for extern %s", key)
	}
	return stub, nil
}

func (x *exec) calleeEnv(s *State, old *State, cs *calleeScope, args []Value) *specEnv {
	env := &specEnv{x: x, cur: s, old: old, vars: map[types.Object]Value{}, oldv: map[types.Object]Value{}, resObj: cs.resObj}
	for i, p := range cs.params {
		if p != nil && i < len(args) {
			env.vars[p] = args[i]
			env.oldv[p] = args[i]
		}
	}
	return env
}

func (x *exec) checkPre(s *State, blk *Block, fn *ssa.Function, args []Value, pos token.Pos, key string, sig *types.Signature) *calleeScope {
	e := x.e
	cs, err := e.calleeScope(blk, fn, key)
	if err != nil {
		x.bindFail(&Clause{Kind: "extern", Text: key, File: blk.File, Line: blk.Line}, err)
		return nil
	}
	for _, cl := range blk.Of("requires") {
		be := e.bind(cl, fn, nil, cs.pos, cs.sig, cs.pkg, e.P.Fset)
		if be.err != nil {
			x.bindFail(cl, be.err)
			continue
		}
		env := x.calleeEnv(s, s, cs, args)
		env.info = be.info
		g, ok := env.eval(be.expr).(*Term)
		if !ok || g.Sort != Bool {
			x.bindFail(cl, fmt.Errorf("precondition does not evaluate to a boolean at call site %s", e.P.Pos(pos)))
			continue
		}
		lbl := cl.Label
		if lbl == "" {
			lbl = "pre"
		}
		x.oblige("pre", calleeShort(key)+"."+lbl, pos, s, g, cl.Text)
	}
	return cs
}

func calleeShort(key string) string {
	if k := strings.Index(key, "|"); k >= 0 {
		key = key[k+1:]
	}
	key = strings.TrimPrefix(key, ModPath+"/")
	return key
}

func (x *exec) applyContract(s *State, blk *Block, fn *ssa.Function, args []Value, pos token.Pos, key string, sig *types.Signature) Value {
	e := x.e
	c := e.C
	if blk.Extern {
		e.ExternsUsed[key] = true
	}
	cs := x.checkPre(s, blk, fn, args, pos, key, sig)
	if cs == nil {
		return x.defaultCall(s, key, args, sig, pos)
	}
	rmi, rowner, rk, relock := x.beforeRelockingCall(s, blk, cs, args, pos)
	old := s.clone()
	// the callee may allocate: values it stores may be references newer than ours
	{
		nn := c.Fresh("next", Int)
		nn.AddFact(c.Le(s.next, nn))
		s.next = nn
	}
	// frame: havoc what modifies lists
	for _, cl := range blk.Of("modifies") {
		x.havocModifies(s, old, cl, blk, fn, cs, args)
	}
	if blk.Has("noframe") {
		for _, a := range args {
			x.havocReachable(s, a)
		}
	}
	// allocation effect
	if al := blk.Of("alloc"); len(al) > 0 {
		for _, cl := range al {
			be := e.bind(cl, fn, nil, cs.pos, cs.sig, cs.pkg, e.P.Fset)
			if be.err != nil {
				x.bindFail(cl, be.err)
				continue
			}
			env := x.calleeEnv(s, old, cs, args)
			env.info = be.info
			if b, ok := env.eval(be.expr).(*Term); ok && b.Sort == Int {
				na := c.Fresh("alloc", Int)
				na.AddFact(c.And(c.Le(old.alloc, na), c.Le(na, c.Add(old.alloc, b))))
				s.alloc = na
			}
		}
		x.noteAlloc(s, pos, "call:"+calleeShort(key))
	} else if !blk.Has("pure") && !blk.Has("noalloc") {
		// no bound known: its own obligation fails; later sites are judged
		// without this site's contribution so that it does not mask them
		na := c.Fresh("alloc.unbounded", Int)
		na.AddFact(c.Le(old.alloc, na))
		s.alloc = na
		x.noteAlloc(s, pos, "call:"+calleeShort(key))
		s.alloc = old.alloc
	}
	if relock {
		x.afterRelockingCall(s, rmi, rowner, rk)
	}
	// closures passed to the callee may have been called by it
	x.havocClosureCaptures(s, args)
	var vals []Value
	for i := 0; i < sig.Results().Len(); i++ {
		vals = append(vals, e.fresh(sig.Results().At(i).Type(), "r:"+calleeShort(key), s))
	}
	for _, cl := range blk.Of("ensures") {
		be := e.bind(cl, fn, nil, cs.pos, cs.sig, cs.pkg, e.P.Fset)
		if be.err != nil {
			x.bindFail(cl, be.err)
			continue
		}
		env := x.calleeEnv(s, old, cs, args)
		env.res = vals
		env.info = be.info
		g, ok := env.eval(be.expr).(*Term)
		if !ok || g.Sort != Bool {
			why := ""
			if pv, isP := env.eval(be.expr).(PoisonV); isP {
				why = pv.Why
			}
			x.bindFail(cl, fmt.Errorf("postcondition does not evaluate to a boolean at call site %s: %s", e.P.Pos(pos), why))
			continue
		}
		s.assume(c, g)
	}
	return resultValue(vals, len(vals))
}

// havocModifies havocs the locations denoted by a modifies clause:
// a comma-separated list of lvalues; "x[_]" / "p.f[_].g" wildcards havoc
// all elements; "*" everything.
func (x *exec) havocModifies(s, old *State, cl *Clause, blk *Block, fn *ssa.Function, cs *calleeScope, args []Value) {
	e := x.e
	c := e.C
	for _, item := range splitTop(cl.Text, ',') {
		item = strings.TrimSpace(item)
		if item == "" {
			continue
		}
		if item == "*" {
			e.noteWrite(s, "*", wtarget{kind: wAll})
			for _, key := range sortedSortKeys(e.heapSorts) {
				if e.isFinal(key) {
					continue
				}
				prev := e.heapGet(s, key, e.heapSorts[key])
				s.heap[key] = c.Fresh("mod.H{"+key+"}", e.heapSorts[key])
				if key == "chan#closed" {
					cv := c.BoundVar("c", Int)
					s.assume(c, c.Quant("forall", []*Term{cv}, c.Implies(c.Select(prev, cv), c.Select(s.heap[key], cv)), nil))
				}
			}
			e.addHavoc(s, "", true)
			continue
		}
		if strings.HasPrefix(item, "heap:") {
			// whole heap key by name
			key := strings.TrimPrefix(item, "heap:")
			for _, k := range sortedSortKeys(e.heapSorts) {
				so := e.heapSorts[k]
				if keyMatches(key, k) && !e.isFinal(k) {
					e.noteWrite(s, k, wtarget{kind: wAll})
					prev := e.heapGet(s, k, so)
					s.heap[k] = c.Fresh("mod.H{"+k+"}", so)
					if k == "chan#closed" {
						// a closed channel never reopens, whatever the callee does
						cv := c.BoundVar("c", Int)
						s.assume(c, c.Quant("forall", []*Term{cv}, c.Implies(c.Select(prev, cv), c.Select(s.heap[k], cv)), nil))
					}
				}
			}
			e.addHavoc(s, key, false)
			continue
		}
		wild := strings.Contains(item, "[_]") || strings.Contains(item, "[__]")
		sub := &Clause{Kind: "modifies", Text: wildText(item), File: cl.File, Line: cl.Line, Label: item}
		be := e.bindAddr(sub, cs)
		if be.err != nil {
			x.bindFail(cl, be.err)
			continue
		}
		env := x.calleeEnv(old, old, cs, args)
		env.info = be.info
		x.havocLvalue(s, old, env, be.expr, wild, cl)
	}
}

func wildText(item string) string {
	item = strings.Replace(item, "[__]", "[wildcap_()]", -1)
	return strings.Replace(item, "[_]", "[wild_()]", -1)
}

func (e *Engine) bindAddr(cl *Clause, cs *calleeScope) *boundExpr {
	return e.bind(cl, nil, nil, cs.pos, cs.sig, cs.pkg, e.P.Fset)
}

func (x *exec) havocLvalue(s, old *State, env *specEnv, ex ast.Expr, wild bool, cl *Clause) {
	e := x.e
	c := e.C
	// ghost field: name(arg)
	if call, ok := ex.(*ast.CallExpr); ok {
		if id, ok := call.Fun.(*ast.Ident); ok {
			if fo, ok := env.info.Uses[id].(*types.Func); ok {
				key := fo.Pkg().Path() + "." + fo.Name()
				if sf := e.lookupSpecFn(fo, key); sf != nil && sf.ghost {
					rt := fo.Type().(*types.Signature).Results().At(0).Type()
					ls := e.leavesOf(rt)
					a := env.eval(call.Args[0])
					ts, err := e.flattenArg(a, fo.Type().(*types.Signature).Params().At(0).Type(), old)
					if err != nil || len(ts) != 1 || len(ls) != 1 {
						x.bindFail(cl, fmt.Errorf("bad ghost modifies"))
						return
					}
					hk := "ghost:" + fo.Name()
					h := e.heapGet(s, hk, Array(Int, ls[0].sort))
					e.noteWrite(s, hk, wtarget{kind: wRef, ref: ts[0]})
					e.heapSet(s, hk, c.Store(h, ts[0], c.Fresh("mod."+fo.Name(), ls[0].sort)))
					return
				}
			}
		}
	}
	if !wild {
		// a slice-typed expression with trailing [:] means its elements
		p, err := env.addr(ex)
		if err != nil {
			// maybe a slice value "p[:]"
			x.bindFail(cl, err)
			return
		}
		if p.Kind == PObj && structOf(p.T) != nil {
			x.havocObject(s, p)
			return
		}
		if err := e.store(s, p, e.fresh(p.T, "mod", s)); err != nil {
			x.bindFail(cl, err)
		}
		return
	}
	base, el, fields, ok := env.wildParts(ex)
	if !ok {
		x.bindFail(cl, fmt.Errorf("unsupported wildcard form"))
		return
	}
	if structOf(el) == nil {
		if len(fields) > 0 {
			x.bindFail(cl, fmt.Errorf("field of non-struct element"))
			return
		}
		for _, l := range e.leavesOf(el) {
			key := elemKey(el) + l.comp
			h := e.heapGet(s, key, Array(Int, Array(Int, l.sort)))
			e.noteWrite(s, key, wtarget{kind: wRow, arr: base.Arr, lo: base.Off, n: base.Len})
			row := c.Select(h, base.Arr)
			nr := c.Fresh("mod.row{"+key+"}", Array(Int, l.sort))
			k := c.BoundVar("k", Int)
			in := c.And(c.Le(base.Off, k), c.Lt(k, c.Add(base.Off, base.Len)))
			sel := c.Select(nr, k)
			nr.AddFact(c.Quant("forall", []*Term{k}, c.Implies(c.Not(in), c.Eq(sel, c.Select(row, k))), [][]*Term{{sel}}))
			e.heapSet(s, key, c.Store(h, base.Arr, nr))
		}
		return
	}
	// struct elements: havoc the listed field (or all fields) of elements in range
	for _, lp := range e.structLeaves(el) {
		if len(fields) > 0 {
			fname := structOf(el).Field(fields[0]).Name()
			pre := "E:" + typeKey(el) + "." + fname
			if lp.key != pre && !strings.HasPrefix(lp.key, pre+"#") && !strings.HasPrefix(lp.key, pre+".") {
				continue
			}
		}
		h := e.heapGet(s, lp.key, Array(Int, Array(Int, lp.sort)))
		e.noteWrite(s, lp.key, wtarget{kind: wRow, arr: base.Arr, lo: base.Off, n: base.Len})
		row := c.Select(h, base.Arr)
		nr := c.Fresh("mod.row{"+lp.key+"}", Array(Int, lp.sort))
		k := c.BoundVar("k", Int)
		in := c.And(c.Le(base.Off, k), c.Lt(k, c.Add(base.Off, base.Len)))
		sel := c.Select(nr, k)
		nr.AddFact(c.Quant("forall", []*Term{k}, c.Implies(c.Not(in), c.Eq(sel, c.Select(row, k))), [][]*Term{{sel}}))
		e.heapSet(s, lp.key, c.Store(h, base.Arr, nr))
	}
}
