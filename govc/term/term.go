// Package term is a small hash-consed term language printed as SMT-LIB 2.
package term

import (
	"fmt"
	"math/big"
	"sort"
	"strings"
	"sync"
)

type SortKind int

const (
	KBool SortKind = iota
	KInt
	KBV8
	KUnint
	KArray
)

type Sort struct {
	Kind      SortKind
	Name      string // for KUnint
	Idx, Elem *Sort
}

var (
	Bool = &Sort{Kind: KBool}
	Int  = &Sort{Kind: KInt}
	BV8  = &Sort{Kind: KBV8}
	Str  = &Sort{Kind: KUnint, Name: "Str"}
	Flt  = &Sort{Kind: KUnint, Name: "Flt"}
)

var arrMu sync.Mutex
var arrSorts = map[[2]*Sort]*Sort{}
var unintSorts = map[string]*Sort{"Str": Str, "Flt": Flt}

func Array(idx, elem *Sort) *Sort {
	arrMu.Lock()
	defer arrMu.Unlock()
	k := [2]*Sort{idx, elem}
	if s, ok := arrSorts[k]; ok {
		return s
	}
	s := &Sort{Kind: KArray, Idx: idx, Elem: elem}
	arrSorts[k] = s
	return s
}

func Unint(name string) *Sort {
	arrMu.Lock()
	defer arrMu.Unlock()
	if s, ok := unintSorts[name]; ok {
		return s
	}
	s := &Sort{Kind: KUnint, Name: name}
	unintSorts[name] = s
	return s
}

func (s *Sort) String() string {
	switch s.Kind {
	case KBool:
		return "Bool"
	case KInt:
		return "Int"
	case KBV8:
		return "(_ BitVec 8)"
	case KUnint:
		return s.Name
	case KArray:
		return "(Array " + s.Idx.String() + " " + s.Elem.String() + ")"
	}
	return "?"
}

type Term struct {
	Op    string
	Args  []*Term
	Sort  *Sort
	Name  string   // const, app, bound
	IVal  *big.Int // int, bv
	Bound []*Term  // forall/exists
	Pats  [][]*Term
	Facts []*Term // side facts that hold whenever this term is meaningful
	OpenFacts []*Term // facts recorded while the term was under a binder (see AddFact)
	id    int
	open  bool // mentions a bound variable
}

func (t *Term) ID() int { return t.id }

// NumTerms is the number of distinct terms created so far.
func (c *Ctx) NumTerms() int { return c.next }

// HasBound reports whether t mentions a bound variable.
func (t *Term) HasBound() bool { return t.open }

// Ctx is a hash-consing context. Not safe for concurrent mutation.
type Ctx struct {
	tab   map[string]*Term
	next  int
	fresh map[string]int
	// UF signatures
	Funs map[string]*FunDecl
	// axioms: included when any of the trigger function names occurs.
	Axioms []*Axiom
	selDepth int
}

type FunDecl struct {
	Name string
	Args []*Sort
	Res  *Sort
	// optional definition
	Params []*Term
	Body   *Term
	Rec    bool
}

type Axiom struct {
	Triggers []string
	Body     *Term
	Name     string
}

func NewCtx() *Ctx {
	return &Ctx{tab: map[string]*Term{}, fresh: map[string]int{}, Funs: map[string]*FunDecl{}}
}

func (c *Ctx) mk(t *Term) *Term {
	var sb strings.Builder
	sb.WriteString(t.Op)
	sb.WriteByte('|')
	sb.WriteString(t.Name)
	sb.WriteByte('|')
	if t.IVal != nil {
		sb.WriteString(t.IVal.String())
	}
	sb.WriteByte('|')
	sb.WriteString(t.Sort.String())
	for _, a := range t.Args {
		fmt.Fprintf(&sb, ",%d", a.id)
	}
	for _, b := range t.Bound {
		fmt.Fprintf(&sb, ";%d", b.id)
	}
	k := sb.String()
	if u, ok := c.tab[k]; ok {
		return u
	}
	c.next++
	t.id = c.next
	for _, a := range t.Args {
		if a.open {
			t.open = true
		}
	}
	if t.Op == "bound" {
		t.open = true
	}
	c.tab[k] = t
	return t
}

// ---- constructors ----

func (c *Ctx) True() *Term  { return c.mk(&Term{Op: "true", Sort: Bool}) }
func (c *Ctx) False() *Term { return c.mk(&Term{Op: "false", Sort: Bool}) }
func (c *Ctx) BoolC(b bool) *Term {
	if b {
		return c.True()
	}
	return c.False()
}
func (c *Ctx) IntC(i int64) *Term { return c.IntB(big.NewInt(i)) }
func (c *Ctx) IntB(i *big.Int) *Term {
	return c.mk(&Term{Op: "int", Sort: Int, IVal: new(big.Int).Set(i)})
}
func (c *Ctx) BVC(i int64) *Term {
	return c.mk(&Term{Op: "bv", Sort: BV8, IVal: big.NewInt(i & 0xff)})
}

// Const returns the named constant (same name = same term).
func (c *Ctx) Const(name string, s *Sort) *Term {
	return c.mk(&Term{Op: "const", Name: name, Sort: s})
}

// Fresh returns a new constant with a unique name.
func (c *Ctx) Fresh(prefix string, s *Sort) *Term {
	prefix = sanitize(prefix)
	c.fresh[prefix]++
	return c.Const(fmt.Sprintf("%s!%d", prefix, c.fresh[prefix]), s)
}

func (c *Ctx) BoundVar(name string, s *Sort) *Term {
	c.fresh["$b"]++
	return c.mk(&Term{Op: "bound", Name: fmt.Sprintf("%s?%d", sanitize(name), c.fresh["$b"]), Sort: s})
}

// Sanitize is the name mangling applied to function symbols.
func Sanitize(s string) string { return sanitize(s) }

func sanitize(s string) string {
	// symbols are always printed quoted (|...|): only the quote character,
	// the backslash and white space must go
	var sb strings.Builder
	for _, r := range s {
		if r == '|' || r == '\\' || r == ' ' || r == '\t' || r == '\n' {
			sb.WriteByte('_')
		} else {
			sb.WriteRune(r)
		}
	}
	return sb.String()
}

func (t *Term) IsTrue() bool  { return t.Op == "true" }
func (t *Term) IsFalse() bool { return t.Op == "false" }
func (t *Term) IsConst() bool { return t.Op == "int" || t.Op == "bv" || t.Op == "true" || t.Op == "false" }

func (c *Ctx) Not(a *Term) *Term {
	switch a.Op {
	case "true":
		return c.False()
	case "false":
		return c.True()
	case "not":
		return a.Args[0]
	}
	return c.mk(&Term{Op: "not", Args: []*Term{a}, Sort: Bool})
}

func (c *Ctx) And(as ...*Term) *Term {
	var out []*Term
	seen := map[int]bool{}
	for _, a := range as {
		if a.IsTrue() {
			continue
		}
		if a.IsFalse() {
			return a
		}
		if a.Op == "and" {
			for _, b := range a.Args {
				if !seen[b.id] {
					seen[b.id] = true
					out = append(out, b)
				}
			}
			continue
		}
		if !seen[a.id] {
			seen[a.id] = true
			out = append(out, a)
		}
	}
	for _, a := range out {
		if a.Op == "not" && seen[a.Args[0].id] {
			return c.False()
		}
	}
	if len(out) == 0 {
		return c.True()
	}
	if len(out) == 1 {
		return out[0]
	}
	return c.mk(&Term{Op: "and", Args: out, Sort: Bool})
}

func (c *Ctx) Or(as ...*Term) *Term {
	var out []*Term
	seen := map[int]bool{}
	for _, a := range as {
		if a.IsFalse() {
			continue
		}
		if a.IsTrue() {
			return a
		}
		if a.Op == "or" {
			for _, b := range a.Args {
				if !seen[b.id] {
					seen[b.id] = true
					out = append(out, b)
				}
			}
			continue
		}
		if !seen[a.id] {
			seen[a.id] = true
			out = append(out, a)
		}
	}
	for _, a := range out {
		if a.Op == "not" && seen[a.Args[0].id] {
			return c.True()
		}
	}
	if len(out) == 0 {
		return c.False()
	}
	if len(out) == 1 {
		return out[0]
	}
	return c.mk(&Term{Op: "or", Args: out, Sort: Bool})
}

func (c *Ctx) Implies(a, b *Term) *Term {
	if a.IsTrue() {
		return b
	}
	if a.IsFalse() || b.IsTrue() {
		return c.True()
	}
	if b.IsFalse() {
		return c.Not(a)
	}
	return c.mk(&Term{Op: "=>", Args: []*Term{a, b}, Sort: Bool})
}

func (c *Ctx) Ite(g, a, b *Term) *Term {
	if g.IsTrue() {
		return a
	}
	if g.IsFalse() {
		return b
	}
	if a == b {
		return a
	}
	if a.Sort != b.Sort {
		panic(fmt.Sprintf("ite sort mismatch %s vs %s", a.Sort, b.Sort))
	}
	if a.Sort == Bool {
		if a.IsTrue() && b.IsFalse() {
			return g
		}
		if a.IsFalse() && b.IsTrue() {
			return c.Not(g)
		}
		if a.IsTrue() {
			return c.Or(g, b)
		}
		if a.IsFalse() {
			return c.And(c.Not(g), b)
		}
		if b.IsTrue() {
			return c.Or(c.Not(g), a)
		}
		if b.IsFalse() {
			return c.And(g, a)
		}
	}
	// ite(g, x, ite(g, y, z)) -> ite(g, x, z)
	if b.Op == "ite" && b.Args[0] == g {
		b = b.Args[2]
	}
	if a.Op == "ite" && a.Args[0] == g {
		a = a.Args[1]
	}
	if a == b {
		return a
	}
	return c.mk(&Term{Op: "ite", Args: []*Term{g, a, b}, Sort: a.Sort})
}

func (c *Ctx) Eq(a, b *Term) *Term {
	if a == b {
		return c.True()
	}
	if a.Sort != b.Sort {
		panic(fmt.Sprintf("eq sort mismatch %s vs %s (%s, %s)", a.Sort, b.Sort, a, b))
	}
	if a.IsConst() && b.IsConst() {
		if a.Op == b.Op && (a.IVal == nil || a.IVal.Cmp(b.IVal) == 0) {
			return c.True()
		}
		return c.False()
	}
	if a.Sort == Bool {
		if a.IsTrue() {
			return b
		}
		if b.IsTrue() {
			return a
		}
		if a.IsFalse() {
			return c.Not(b)
		}
		if b.IsFalse() {
			return c.Not(a)
		}
	}
	if a.id > b.id {
		a, b = b, a
	}
	return c.mk(&Term{Op: "=", Args: []*Term{a, b}, Sort: Bool})
}

func (c *Ctx) Ne(a, b *Term) *Term { return c.Not(c.Eq(a, b)) }

func (c *Ctx) cmp(op string, a, b *Term) *Term {
	if a.Op == "int" && b.Op == "int" {
		r := a.IVal.Cmp(b.IVal)
		switch op {
		case "<":
			return c.BoolC(r < 0)
		case "<=":
			return c.BoolC(r <= 0)
		}
	}
	if a == b {
		return c.BoolC(op == "<=")
	}
	return c.mk(&Term{Op: op, Args: []*Term{a, b}, Sort: Bool})
}
func (c *Ctx) Lt(a, b *Term) *Term { return c.cmp("<", a, b) }
func (c *Ctx) Le(a, b *Term) *Term { return c.cmp("<=", a, b) }
func (c *Ctx) Gt(a, b *Term) *Term { return c.cmp("<", b, a) }
func (c *Ctx) Ge(a, b *Term) *Term { return c.cmp("<=", b, a) }

func (c *Ctx) Add(a, b *Term) *Term {
	if a.Op == "int" && b.Op == "int" {
		return c.IntB(new(big.Int).Add(a.IVal, b.IVal))
	}
	if a.Op == "int" && a.IVal.Sign() == 0 {
		return b
	}
	if b.Op == "int" && b.IVal.Sign() == 0 {
		return a
	}
	// (x + c1) + c2
	if b.Op == "int" && a.Op == "+" && len(a.Args) == 2 && a.Args[1].Op == "int" {
		return c.Add(a.Args[0], c.IntB(new(big.Int).Add(a.Args[1].IVal, b.IVal)))
	}
	if b.Op == "int" && a.Op == "-" && len(a.Args) == 2 && a.Args[1].Op == "int" {
		return c.Add(a.Args[0], c.IntB(new(big.Int).Sub(b.IVal, a.Args[1].IVal)))
	}
	if a.Op == "int" {
		a, b = b, a
	}
	return c.mk(&Term{Op: "+", Args: []*Term{a, b}, Sort: Int})
}

func (c *Ctx) Sub(a, b *Term) *Term {
	if a.Op == "int" && b.Op == "int" {
		return c.IntB(new(big.Int).Sub(a.IVal, b.IVal))
	}
	if b.Op == "int" {
		return c.Add(a, c.IntB(new(big.Int).Neg(b.IVal)))
	}
	if a == b {
		return c.IntC(0)
	}
	return c.mk(&Term{Op: "-", Args: []*Term{a, b}, Sort: Int})
}

func (c *Ctx) Neg(a *Term) *Term { return c.Sub(c.IntC(0), a) }

func (c *Ctx) Mul(a, b *Term) *Term {
	if a.Op == "int" && b.Op == "int" {
		return c.IntB(new(big.Int).Mul(a.IVal, b.IVal))
	}
	if a.Op == "int" {
		a, b = b, a
	}
	if b.Op == "int" {
		if b.IVal.Sign() == 0 {
			return b
		}
		if b.IVal.Cmp(big.NewInt(1)) == 0 {
			return a
		}
	}
	return c.mk(&Term{Op: "*", Args: []*Term{a, b}, Sort: Int})
}

// Div and Mod are SMT-LIB div/mod (floor for positive divisors).
func (c *Ctx) Div(a, b *Term) *Term {
	if a.Op == "int" && b.Op == "int" && b.IVal.Sign() > 0 {
		q, _ := new(big.Int).DivMod(a.IVal, b.IVal, new(big.Int))
		return c.IntB(q)
	}
	if b.Op == "int" && b.IVal.Cmp(big.NewInt(1)) == 0 {
		return a
	}
	return c.mk(&Term{Op: "div", Args: []*Term{a, b}, Sort: Int})
}
func (c *Ctx) Mod(a, b *Term) *Term {
	if a.Op == "int" && b.Op == "int" && b.IVal.Sign() > 0 {
		_, m := new(big.Int).DivMod(a.IVal, b.IVal, new(big.Int))
		return c.IntB(m)
	}
	if b.Op == "int" && b.IVal.Cmp(big.NewInt(1)) == 0 {
		return c.IntC(0)
	}
	return c.mk(&Term{Op: "mod", Args: []*Term{a, b}, Sort: Int})
}

func (c *Ctx) Select(a, i *Term) *Term {
	if a.Sort.Kind != KArray {
		panic("select on non-array " + a.Sort.String())
	}
	if i.Sort != a.Sort.Idx {
		panic(fmt.Sprintf("select index sort %s, want %s", i.Sort, a.Sort.Idx))
	}
	// select(store(a,i,v),j)
	for a.Op == "store" {
		j := a.Args[1]
		if j == i {
			return a.Args[2]
		}
		if j.IsConst() && i.IsConst() {
			a = a.Args[0]
			continue
		}
		break
	}
	if a.Op == "constarr" {
		return a.Args[0]
	}
	if a.Op == "ite" && c.selDepth < 3 {
		// distribute the read over a merged heap when that exposes a
		// select-over-store simplification in at least one branch
		c.selDepth++
		x, y := c.Select(a.Args[1], i), c.Select(a.Args[2], i)
		c.selDepth--
		plain := func(r, arr *Term) bool { return r.Op == "select" && r.Args[0] == arr && r.Args[1] == i }
		if !(plain(x, a.Args[1]) && plain(y, a.Args[2])) {
			return c.Ite(a.Args[0], x, y)
		}
	}
	return c.mk(&Term{Op: "select", Args: []*Term{a, i}, Sort: a.Sort.Elem})
}

func (c *Ctx) Store(a, i, v *Term) *Term {
	if a.Sort.Kind != KArray || i.Sort != a.Sort.Idx || v.Sort != a.Sort.Elem {
		panic(fmt.Sprintf("store sorts: %s [%s] := %s", a.Sort, i.Sort, v.Sort))
	}
	if a.Op == "store" && a.Args[1] == i {
		a = a.Args[0]
	}
	if v.Op == "select" && v.Args[0] == a && v.Args[1] == i {
		return a
	}
	return c.mk(&Term{Op: "store", Args: []*Term{a, i, v}, Sort: a.Sort})
}

// App applies an uninterpreted (or defined) function.
func (c *Ctx) App(name string, res *Sort, args ...*Term) *Term {
	name = sanitize(name)
	if _, ok := c.Funs[name]; !ok {
		fd := &FunDecl{Name: name, Res: res}
		for _, a := range args {
			fd.Args = append(fd.Args, a.Sort)
		}
		c.Funs[name] = fd
	} else {
		fd := c.Funs[name]
		if len(fd.Args) != len(args) || fd.Res != res {
			panic("function " + name + " used at two signatures")
		}
		for i, a := range args {
			if fd.Args[i] != a.Sort {
				panic(fmt.Sprintf("function %s arg %d: %s vs %s", name, i, fd.Args[i], a.Sort))
			}
		}
	}
	return c.mk(&Term{Op: "app", Name: name, Args: args, Sort: res})
}

// ConstArr is the array with every element equal to v.
func (c *Ctx) ConstArr(s *Sort, v *Term) *Term {
	return c.mk(&Term{Op: "constarr", Args: []*Term{v}, Sort: s})
}

func (c *Ctx) Quant(op string, bound []*Term, body *Term, pats [][]*Term) *Term {
	if len(bound) == 0 {
		return body
	}
	if body.IsTrue() && op == "forall" || body.IsFalse() && op == "exists" {
		return body
	}
	t := c.mk(&Term{Op: op, Args: []*Term{body}, Bound: bound, Sort: Bool})
	if t.Pats == nil {
		ok := true
		for _, ps := range pats {
			for _, p := range ps {
				if !validPattern(p, map[*Term]bool{}) {
					ok = false
				}
			}
		}
		if ok {
			t.Pats = pats
		}
	}
	// open iff mentions bound vars other than its own
	t.open = false
	own := map[*Term]bool{}
	for _, b := range bound {
		own[b] = true
	}
	var walk func(u *Term) bool
	seen := map[*Term]bool{}
	walk = func(u *Term) bool {
		if !u.open {
			return false
		}
		if seen[u] {
			return false
		}
		seen[u] = true
		if u.Op == "bound" {
			return !own[u]
		}
		if u.Op == "forall" || u.Op == "exists" {
			// its own open flag already accounts for inner binders
			if u != t {
				return u.open && walkQ(u, own)
			}
		}
		for _, a := range u.Args {
			if walk(a) {
				return true
			}
		}
		return false
	}
	t.open = walk(body)
	return t
}

// validPattern: solvers accept only function applications (no connectives,
// ite, arithmetic relations) inside patterns.
func validPattern(p *Term, seen map[*Term]bool) bool {
	if seen[p] {
		return true
	}
	seen[p] = true
	switch p.Op {
	case "ite", "not", "and", "or", "=>", "=", "<", "<=", "forall", "exists", "true", "false":
		return false
	}
	for _, a := range p.Args {
		if !validPattern(a, seen) {
			return false
		}
	}
	return true
}

func walkQ(u *Term, outer map[*Term]bool) bool {
	// conservative: an inner quantifier that is open mentions some bound variable not its own;
	// if it is one of outer, it is closed by us. We approximate by scanning.
	free := map[*Term]bool{}
	FreeBound(u, free)
	for b := range free {
		if !outer[b] {
			return true
		}
	}
	return false
}

// FreeBound collects bound variables occurring free in t.
func FreeBound(t *Term, out map[*Term]bool) {
	seen := map[*Term]bool{}
	var walk func(u *Term, bound map[*Term]bool)
	walk = func(u *Term, bound map[*Term]bool) {
		if !u.open && u.Op != "forall" && u.Op != "exists" {
			return
		}
		if u.Op == "bound" {
			if !bound[u] {
				out[u] = true
			}
			return
		}
		if u.Op == "forall" || u.Op == "exists" {
			nb := map[*Term]bool{}
			for k := range bound {
				nb[k] = true
			}
			for _, b := range u.Bound {
				nb[b] = true
			}
			walk(u.Args[0], nb)
			return
		}
		if len(bound) == 0 {
			if seen[u] {
				return
			}
			seen[u] = true
		}
		for _, a := range u.Args {
			walk(a, bound)
		}
	}
	walk(t, map[*Term]bool{})
}

// ---- BV8 ----

func (c *Ctx) BVBin(op string, a, b *Term) *Term {
	if a.Op == "bv" && b.Op == "bv" {
		x, y := a.IVal.Int64(), b.IVal.Int64()
		switch op {
		case "bvand":
			return c.BVC(x & y)
		case "bvor":
			return c.BVC(x | y)
		case "bvxor":
			return c.BVC(x ^ y)
		case "bvadd":
			return c.BVC(x + y)
		case "bvsub":
			return c.BVC(x - y)
		case "bvmul":
			return c.BVC(x * y)
		case "bvshl":
			if y >= 8 {
				return c.BVC(0)
			}
			return c.BVC(x << uint(y))
		case "bvlshr":
			if y >= 8 {
				return c.BVC(0)
			}
			return c.BVC(x >> uint(y))
		case "bvudiv":
			if y != 0 {
				return c.BVC(x / y)
			}
		case "bvurem":
			if y != 0 {
				return c.BVC(x % y)
			}
		}
	}
	return c.mk(&Term{Op: op, Args: []*Term{a, b}, Sort: BV8})
}
func (c *Ctx) BVNot(a *Term) *Term {
	if a.Op == "bv" {
		return c.BVC(^a.IVal.Int64())
	}
	return c.mk(&Term{Op: "bvnot", Args: []*Term{a}, Sort: BV8})
}
func (c *Ctx) BVCmp(op string, a, b *Term) *Term {
	if a.Op == "bv" && b.Op == "bv" {
		x, y := a.IVal.Int64(), b.IVal.Int64()
		switch op {
		case "bvult":
			return c.BoolC(x < y)
		case "bvule":
			return c.BoolC(x <= y)
		}
	}
	return c.mk(&Term{Op: op, Args: []*Term{a, b}, Sort: Bool})
}
func (c *Ctx) BV2Nat(a *Term) *Term {
	if a.Op == "bv" {
		return c.IntB(a.IVal)
	}
	if a.Op == "int2bv" {
		// bv2nat(int2bv(x)) = x mod 256
		return c.Mod(a.Args[0], c.IntC(256))
	}
	return c.mk(&Term{Op: "bv2nat", Args: []*Term{a}, Sort: Int})
}
func (c *Ctx) Int2BV(a *Term) *Term {
	if a.Op == "int" {
		m := new(big.Int).Mod(a.IVal, big.NewInt(256))
		return c.BVC(m.Int64())
	}
	if a.Op == "bv2nat" {
		return a.Args[0]
	}
	return c.mk(&Term{Op: "int2bv", Args: []*Term{a}, Sort: BV8})
}

// AddFact attaches a side fact to t.
func (t *Term) AddFact(f *Term) {
	if f.IsTrue() {
		return
	}
	if t.open || f.open {
		// facts about terms under a binder cannot be asserted at top level: they
		// are kept aside and re-attached, instantiated, when a substitution
		// closes the term (quantifier instantiation)
		if t.open && len(t.OpenFacts) < 4 {
			for _, g := range t.OpenFacts {
				if g == f {
					return
				}
			}
			t.OpenFacts = append(t.OpenFacts, f)
		}
		return
	}
	for _, g := range t.Facts {
		if g == f {
			return
		}
	}
	t.Facts = append(t.Facts, f)
}

// ---- substitution ----

func (c *Ctx) Subst(t *Term, m map[*Term]*Term) *Term {
	memo := map[*Term]*Term{}
	var rec func(u *Term) *Term
	rec = func(u *Term) *Term {
		if r, ok := m[u]; ok {
			return r
		}
		if len(u.Args) == 0 {
			return u
		}
		if r, ok := memo[u]; ok {
			return r
		}
		args := make([]*Term, len(u.Args))
		ch := false
		for i, a := range u.Args {
			args[i] = rec(a)
			if args[i] != a {
				ch = true
			}
		}
		r := u
		if ch {
			r = c.rebuild(u, args)
			memo[u] = r
			if len(u.OpenFacts) > 0 && !r.open {
				for _, f := range u.OpenFacts {
					if g := rec(f); !g.open {
						r.AddFact(g)
					}
				}
			}
		}
		memo[u] = r
		return r
	}
	return rec(t)
}

func (c *Ctx) rebuild(u *Term, args []*Term) *Term {
	switch u.Op {
	case "not":
		return c.Not(args[0])
	case "and":
		return c.And(args...)
	case "or":
		return c.Or(args...)
	case "=>":
		return c.Implies(args[0], args[1])
	case "ite":
		return c.Ite(args[0], args[1], args[2])
	case "=":
		return c.Eq(args[0], args[1])
	case "<":
		return c.Lt(args[0], args[1])
	case "<=":
		return c.Le(args[0], args[1])
	case "+":
		return c.Add(args[0], args[1])
	case "-":
		return c.Sub(args[0], args[1])
	case "*":
		return c.Mul(args[0], args[1])
	case "div":
		return c.Div(args[0], args[1])
	case "mod":
		return c.Mod(args[0], args[1])
	case "select":
		return c.Select(args[0], args[1])
	case "store":
		return c.Store(args[0], args[1], args[2])
	case "app":
		return c.App(u.Name, u.Sort, args...)
	case "forall", "exists":
		return c.Quant(u.Op, u.Bound, args[0], u.Pats)
	case "constarr":
		return c.ConstArr(u.Sort, args[0])
	case "bvnot":
		return c.BVNot(args[0])
	case "bv2nat":
		return c.BV2Nat(args[0])
	case "int2bv":
		return c.Int2BV(args[0])
	case "bvult", "bvule":
		return c.BVCmp(u.Op, args[0], args[1])
	}
	if strings.HasPrefix(u.Op, "bv") {
		return c.BVBin(u.Op, args[0], args[1])
	}
	panic("rebuild: " + u.Op)
}

// ---- printing ----

func (t *Term) String() string {
	var sb strings.Builder
	t.write(&sb, nil)
	return sb.String()
}

func (t *Term) write(sb *strings.Builder, names map[*Term]string) {
	if names != nil {
		if n, ok := names[t]; ok {
			sb.WriteString(n)
			return
		}
	}
	switch t.Op {
	case "true", "false":
		sb.WriteString(t.Op)
	case "int":
		if t.IVal.Sign() < 0 {
			sb.WriteString("(- ")
			sb.WriteString(new(big.Int).Neg(t.IVal).String())
			sb.WriteString(")")
		} else {
			sb.WriteString(t.IVal.String())
		}
	case "bv":
		fmt.Fprintf(sb, "#x%02x", t.IVal.Int64())
	case "const", "bound":
		sb.WriteString(quote(t.Name))
	case "app":
		if len(t.Args) == 0 {
			sb.WriteString(quote(t.Name))
			return
		}
		sb.WriteString("(")
		sb.WriteString(quote(t.Name))
		for _, a := range t.Args {
			sb.WriteByte(' ')
			a.write(sb, names)
		}
		sb.WriteString(")")
	case "forall", "exists":
		sb.WriteString("(")
		sb.WriteString(t.Op)
		sb.WriteString(" (")
		for _, b := range t.Bound {
			fmt.Fprintf(sb, "(%s %s)", quote(b.Name), b.Sort)
		}
		sb.WriteString(") ")
		if len(t.Pats) > 0 {
			sb.WriteString("(! ")
		}
		t.Args[0].write(sb, names)
		if len(t.Pats) > 0 {
			for _, p := range t.Pats {
				sb.WriteString(" :pattern (")
				for i, q := range p {
					if i > 0 {
						sb.WriteByte(' ')
					}
					q.write(sb, names)
				}
				sb.WriteString(")")
			}
			sb.WriteString(")")
		}
		sb.WriteString(")")
	case "constarr":
		sb.WriteString("((as const ")
		sb.WriteString(t.Sort.String())
		sb.WriteString(") ")
		t.Args[0].write(sb, names)
		sb.WriteString(")")
	case "int2bv":
		sb.WriteString("((_ int2bv 8) ")
		t.Args[0].write(sb, names)
		sb.WriteString(")")
	case "-":
		sb.WriteString("(- ")
		t.Args[0].write(sb, names)
		sb.WriteByte(' ')
		t.Args[1].write(sb, names)
		sb.WriteString(")")
	default:
		sb.WriteString("(")
		sb.WriteString(t.Op)
		for _, a := range t.Args {
			sb.WriteByte(' ')
			a.write(sb, names)
		}
		sb.WriteString(")")
	}
}

func quote(s string) string {
	return "|" + s + "|"
}

// Query renders an SMT-LIB script checking satisfiability of the conjunction
// of asserts (each assert is a closed Bool term). Shared closed subterms are
// emitted as define-fun. Facts attached to reachable terms and axioms whose
// triggers occur are added as assertions.
func (c *Ctx) Query(asserts []*Term, getModelFor []*Term) string {
	return c.QueryOpt(asserts, getModelFor, false)
}

// QueryOpt with noQuant omits quantified side facts and axioms (a weakening).
func (c *Ctx) QueryOpt(asserts []*Term, getModelFor []*Term, noQuant bool) string {
	var order []*Term
	seen := map[*Term]bool{}
	consts := map[string]*Term{}
	funs := map[string]bool{}
	sorts := map[string]bool{}
	var facts []*Term
	factSeen := map[*Term]bool{}
	var qfacts []*Term // quantified facts to be instantiated by hand (noQuant mode)
	qfactSeen := map[*Term]bool{}
	var noteSort func(s *Sort)
	noteSort = func(s *Sort) {
		switch s.Kind {
		case KUnint:
			sorts[s.Name] = true
		case KArray:
			noteSort(s.Idx)
			noteSort(s.Elem)
		}
	}
	var visit func(t *Term)
	var visitFun func(name string)
	visit = func(t *Term) {
		if seen[t] {
			return
		}
		seen[t] = true
		noteSort(t.Sort)
		for _, b := range t.Bound {
			noteSort(b.Sort)
		}
		for _, a := range t.Args {
			visit(a)
		}
		for _, ps := range t.Pats {
			for _, p := range ps {
				visit(p)
			}
		}
		if t.Op == "const" {
			consts[t.Name] = t
		}
		if t.Op == "app" {
			visitFun(t.Name)
		}
		for _, f := range t.Facts {
			if noQuant && hasQuant(f, map[*Term]bool{}) {
				if !qfactSeen[f] {
					qfactSeen[f] = true
					qfacts = append(qfacts, f)
				}
				continue
			}
			if !factSeen[f] {
				factSeen[f] = true
				facts = append(facts, f)
				visit(f)
			}
		}
		order = append(order, t)
	}
	var funOrder []string
	visitFun = func(name string) {
		if funs[name] {
			return
		}
		funs[name] = true
		fd := c.Funs[name]
		for _, s := range fd.Args {
			noteSort(s)
		}
		noteSort(fd.Res)
		if fd.Body != nil {
			visit(fd.Body)
		}
		funOrder = append(funOrder, name)
	}
	for _, a := range asserts {
		visit(a)
	}
	// noQuant: one-variable facts "forall k. P" with pattern select(A, k) are
	// instantiated at every index at which A is read (E-matching by hand)
	if noQuant {
		done := map[[2]*Term]bool{}
		for round := 0; round < 4; round++ {
			added := false
			snapshot := append([]*Term(nil), order...)
			for _, f := range append([]*Term(nil), qfacts...) {
				if f.Op != "forall" || len(f.Bound) != 1 || len(f.Pats) != 1 || len(f.Pats[0]) != 1 {
					continue
				}
				pat := f.Pats[0][0]
				if pat.Op != "select" || pat.Args[1] != f.Bound[0] || pat.Args[0].open {
					continue
				}
				arr := pat.Args[0]
				n := 0
				for _, t := range snapshot {
					// every index at which an array of this sort is read (the row may be
					// reached through stores/ites that only the array theory resolves)
					if t.Op == "select" && (t.Args[0] == arr || t.Args[0].Sort == arr.Sort) && !t.Args[1].open && n < 48 {
						n++
						k := [2]*Term{f, t.Args[1]}
						if done[k] {
							continue
						}
						done[k] = true
						inst := c.Subst(f.Args[0], map[*Term]*Term{f.Bound[0]: t.Args[1]})
						if !factSeen[inst] {
							factSeen[inst] = true
							facts = append(facts, inst)
							visit(inst)
							added = true
						}
					}
				}
			}
			if !added {
				break
			}
		}
	}
	// axioms to fixpoint
	var axs []*Axiom
	axSeen := map[*Axiom]bool{}
	for changed := !noQuant; changed; {
		changed = false
		for _, ax := range c.Axioms {
			if axSeen[ax] {
				continue
			}
			hit := false
			for _, tr := range ax.Triggers {
				if funs[sanitize(tr)] {
					hit = true
				}
			}
			if hit {
				axSeen[ax] = true
				axs = append(axs, ax)
				visit(ax.Body)
				changed = true
			}
		}
	}
	// decide which terms get names: closed, non-leaf, with >1 use or large
	uses := map[*Term]int{}
	for _, t := range order {
		for _, a := range t.Args {
			uses[a]++
		}
	}
	names := map[*Term]string{}
	var sb strings.Builder
	sb.WriteString("(set-option :produce-models true)\n(set-logic ALL)\n")
	var sn []string
	for s := range sorts {
		sn = append(sn, s)
	}
	sort.Strings(sn)
	for _, s := range sn {
		fmt.Fprintf(&sb, "(declare-sort %s 0)\n", s)
	}
	var cn []string
	for n := range consts {
		cn = append(cn, n)
	}
	sort.Strings(cn)
	for _, n := range cn {
		fmt.Fprintf(&sb, "(declare-fun %s () %s)\n", quote(n), consts[n].Sort)
	}
	// uninterpreted functions first, then defined ones (bodies may use define-funs? keep bodies inline)
	for _, n := range funOrder {
		fd := c.Funs[n]
		if fd.Body != nil {
			continue
		}
		fmt.Fprintf(&sb, "(declare-fun %s (", quote(n))
		for i, s := range fd.Args {
			if i > 0 {
				sb.WriteByte(' ')
			}
			sb.WriteString(s.String())
		}
		fmt.Fprintf(&sb, ") %s)\n", fd.Res)
	}
	for _, n := range funOrder {
		fd := c.Funs[n]
		if fd.Body == nil {
			continue
		}
		kw := "define-fun"
		if fd.Rec {
			kw = "define-fun-rec"
		}
		fmt.Fprintf(&sb, "(%s %s (", kw, quote(n))
		for _, p := range fd.Params {
			fmt.Fprintf(&sb, "(%s %s)", quote(p.Name), p.Sort)
		}
		fmt.Fprintf(&sb, ") %s ", fd.Res)
		fd.Body.write(&sb, nil)
		sb.WriteString(")\n")
	}
	inBody := map[*Term]bool{}
	for _, n := range funOrder {
		if b := c.Funs[n].Body; b != nil {
			markAll(b, inBody)
		}
	}
	for _, t := range order {
		if t.open || len(t.Args) == 0 || inBody[t] && uses[t] <= 1 {
			continue
		}
		if uses[t] > 1 || len(t.Args) > 3 {
			nm := fmt.Sprintf("$t%d", t.id)
			fmt.Fprintf(&sb, "(define-fun %s () %s ", quote(nm), t.Sort)
			t.write(&sb, names)
			sb.WriteString(")\n")
			names[t] = quote(nm)
		}
	}
	for _, ax := range axs {
		sb.WriteString("(assert ")
		ax.Body.write(&sb, names)
		sb.WriteString(")\n")
	}
	for _, f := range facts {
		sb.WriteString("(assert ")
		f.write(&sb, names)
		sb.WriteString(")\n")
	}
	for _, a := range asserts {
		sb.WriteString("(assert ")
		a.write(&sb, names)
		sb.WriteString(")\n")
	}
	sb.WriteString("(check-sat)\n")
	if len(getModelFor) > 0 {
		sb.WriteString("(get-value (")
		for _, t := range getModelFor {
			t.write(&sb, names)
			sb.WriteByte(' ')
		}
		sb.WriteString("))\n")
	}
	return sb.String()
}

func hasQuant(t *Term, seen map[*Term]bool) bool {
	if seen[t] {
		return false
	}
	seen[t] = true
	if t.Op == "forall" || t.Op == "exists" {
		return true
	}
	for _, a := range t.Args {
		if hasQuant(a, seen) {
			return true
		}
	}
	return false
}

func markAll(t *Term, m map[*Term]bool) {
	if m[t] {
		return
	}
	m[t] = true
	for _, a := range t.Args {
		markAll(a, m)
	}
}

// Define registers a defined function (possibly recursive).
func (c *Ctx) Define(name string, params []*Term, res *Sort, body *Term, rec bool) {
	name = sanitize(name)
	fd := &FunDecl{Name: name, Res: res, Params: params, Body: body, Rec: rec}
	for _, p := range params {
		fd.Args = append(fd.Args, p.Sort)
	}
	c.Funs[name] = fd
}

// Declare registers an uninterpreted function signature.
func (c *Ctx) Declare(name string, args []*Sort, res *Sort) {
	name = sanitize(name)
	if _, ok := c.Funs[name]; ok {
		return
	}
	c.Funs[name] = &FunDecl{Name: name, Args: args, Res: res}
}

func (c *Ctx) AddAxiom(name string, triggers []string, body *Term) {
	c.Axioms = append(c.Axioms, &Axiom{Name: name, Triggers: triggers, Body: body})
}

// Size returns the number of distinct nodes reachable from t.
func Size(ts ...*Term) int {
	seen := map[*Term]bool{}
	var walk func(t *Term)
	walk = func(t *Term) {
		if seen[t] {
			return
		}
		seen[t] = true
		for _, a := range t.Args {
			walk(a)
		}
	}
	for _, t := range ts {
		walk(t)
	}
	return len(seen)
}

// HasQuant reports whether t contains a quantifier.
func (t *Term) HasQuant() bool { return hasQuant(t, map[*Term]bool{}) }
